#!/usr/bin/env python3
"""Build a counterexample / witness file (typed-JSON encoding of gosym) from plain JSON inputs.

usage: mkcex.py OUT property pkg harness label repeat name=kind:json [name=kind:json ...]
kinds: json, map (typed-JSON encoded), choose (integer), string, int, bool, float
Plain JSON numbers become float64; {"$i64": n} / {"$int": n} / {"$alien": 1} give the other Go types.
"""
import json, sys

def tj(v):
    if v is None: return {"t": "nil"}
    if isinstance(v, bool): return {"t": "bool", "v": v}
    if isinstance(v, (int, float)): return {"t": "f64", "v": repr(float(v))}
    if isinstance(v, str): return {"t": "str", "v": v}
    if isinstance(v, list): return {"t": "arr", "v": [tj(x) for x in v]}
    if isinstance(v, dict):
        if "$i64" in v: return {"t": "i64", "v": str(v["$i64"])}
        if "$int" in v: return {"t": "int", "v": str(v["$int"])}
        if "$alien" in v: return {"t": "alien"}
        if "$nilmap" in v: return {"t": "nilmap"}
        return {"t": "map", "v": [[k, tj(x)] for k, x in v.items()]}
    raise ValueError(v)

def main():
    out, prop, pkg, harness, label, repeat = sys.argv[1:7]
    inputs = []
    for a in sys.argv[7:]:
        name, rest = a.split("=", 1)
        kind, val = rest.split(":", 1)
        if kind == "choose":
            n = None
            if "/" in val:
                val, n = val.split("/")
            inputs.append({"kind": "choose", "name": name, "int": int(val), **({"n": int(n)} if n else {})})
        elif kind in ("json", "map"):
            inputs.append({"kind": kind, "name": name, "val": tj(json.loads(val))})
        elif kind == "string":
            inputs.append({"kind": kind, "name": name, "val": {"t": "str", "v": val}})
        elif kind == "int":
            inputs.append({"kind": kind, "name": name, "val": {"t": "i64", "v": val}})
        elif kind == "bool":
            inputs.append({"kind": kind, "name": name, "val": {"t": "bool", "v": val == "true"}})
        elif kind == "float":
            inputs.append({"kind": kind, "name": name, "val": {"t": "f64", "v": val}})
    c = {"property": prop, "pkg": pkg, "harness": harness, "label": label, "kind": "witness", "tier": 0,
         "known": [], "inputs": inputs, "repeat": int(repeat)}
    json.dump(c, open(out, "w"), indent=1)

main()
