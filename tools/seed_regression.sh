#!/bin/bash
# Re-runs the quick check of every saved seeded change against the current harnesses.
# For each /verif/seeded/<id>-<letter>: a scratch worktree of /repo HEAD gets the patch, the property's quick
# check is pointed at it (GOSYM_REPO), and the outcome is appended to the log given as $1.
# Seeds whose patch no longer applies to HEAD (lines since changed by a fix) are reported as such.
export GOFLAGS=-mod=mod GOPROXY=off GOSUMDB=off GOTOOLCHAIN=local
LOG=${1:-/tmp/seed_regression.log}
WT=$(mktemp -d /tmp/wt-seedreg.XXXXXX)
git -C /repo worktree add --detach $WT HEAD -q || exit 2
shift
SEEDS=${@:-$(ls /verif/seeded | grep -E '^C[0-9]+-[A-Z]$')}
for s in $SEEDS; do
  id=${s%%-*}
  cd $WT && git checkout -q -- . && git clean -fdq
  if ! git apply /verif/seeded/$s/patch.diff 2>/dev/null; then echo "$s PATCH-DOES-NOT-APPLY" >> $LOG; continue; fi
  if ! go build ./... >/dev/null 2>&1; then echo "$s DOES-NOT-BUILD" >> $LOG; continue; fi
  L=$(mktemp -d /tmp/seedreg.XXXXXX)
  GOSYM_REPO=$WT GOSYM_OUT=$L /verif/bin/gosym check $id --tier quick > $L/out.log 2>&1; rc=$?
  echo "$s exit=$rc $(grep -E '^(VIOLATION|INCONCLUSIVE|UNCONFIRMED|VACUOUS)' $L/out.log | head -2 | cut -c1-160 | tr '\n' ' ')" >> $LOG
  rm -rf $L
done
cd /; git -C /repo worktree remove --force $WT
echo "DONE" >> $LOG
