#!/bin/bash
# usage: try_seed.sh <seed dir (with patch.diff, demo_test.go)> <worktree> <demo pkg dir> <check id> [check id...]
# 1. confirms in the scratch worktree: suite passes with the change, demo fails with it, demo passes without
# 2. runs the given checks (quick) against the change.
#    Default (as the protocol prescribes): git -C /repo apply; run; git -C /repo checkout -- .
#    With SEED_IN_WORKTREE=1 the patch stays applied in the scratch worktree and the checks are pointed at it
#    (GOSYM_REPO, outputs to a temp dir) - used while other runs are reading /repo.
export GOFLAGS=-mod=mod GOPROXY=off GOSUMDB=off GOTOOLCHAIN=local
SD=$1; WT=$2; PKG=$3; shift 3
L=$(mktemp -d /tmp/tryseed.XXXXXX)
cd $WT || exit 2
git checkout -q -- . ; rm -f $PKG/zz_demo_test.go
git apply --check $SD/patch.diff || { echo "PATCH-DOES-NOT-APPLY"; exit 2; }
cp $SD/demo_test.go $PKG/zz_demo_test.go
if go test -vet=off -count=1 -run 'Demo|ZZ' ./$PKG >$L/demo_clean.log 2>&1; then echo "demo-on-clean: PASS"; else echo "demo-on-clean: FAIL(!)"; tail -5 $L/demo_clean.log; fi
git apply $SD/patch.diff
if go test -vet=off -count=1 -run 'Demo|ZZ' ./$PKG >$L/demo_mut.log 2>&1; then echo "demo-with-change: PASS(!)"; else echo "demo-with-change: FAIL (as intended)"; fi
rm -f $PKG/zz_demo_test.go
if go build ./... >$L/suite.log 2>&1 && go test -vet=off -count=1 ./... >>$L/suite.log 2>&1; then echo "suite-with-change: PASS"; else echo "suite-with-change: FAIL(!)"; grep -E "^(FAIL|---)" $L/suite.log | head -5; fi
if [ -n "$SEED_IN_WORKTREE" ]; then
  for id in "$@"; do
    GOSYM_REPO=$WT GOSYM_OUT=$L /verif/bin/gosym check $id --tier quick > $L/check_$id.log 2>&1; rc=$?
    echo "check $id: exit=$rc $(grep -E '^(VIOLATION|INCONCLUSIVE|UNCONFIRMED|VACUOUS)' $L/check_$id.log | head -3 | tr '\n' ' ')"
  done
  git checkout -q -- .
else
  git checkout -q -- .
  cd /repo && git apply $SD/patch.diff || { echo "cannot apply to /repo"; exit 2; }
  for id in "$@"; do
    GOSYM_OUT=$L /verif/bin/gosym check $id --tier quick > $L/check_$id.log 2>&1; rc=$?
    echo "check $id: exit=$rc $(grep -E '^(VIOLATION|INCONCLUSIVE|UNCONFIRMED|VACUOUS)' $L/check_$id.log | head -3 | tr '\n' ' ')"
  done
  git -C /repo checkout -q -- .
  git -C /repo status --short | head -3
fi
echo "logs: $L"
