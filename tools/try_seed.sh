#!/bin/bash
# usage: try_seed.sh <seed dir (with patch.diff, demo_test.go)> <worktree> <demo pkg dir> <check id> [check id...]
# 1. confirms in the scratch worktree: suite passes with the change, demo fails with it, demo passes without
# 2. applies the patch to /repo, runs the given checks (quick), undoes it
export GOFLAGS=-mod=mod GOPROXY=off GOSUMDB=off GOTOOLCHAIN=local
SD=$1; WT=$2; PKG=$3; shift 3
cd $WT || exit 2
git checkout -q -- . ; rm -f $PKG/zz_demo_test.go
git apply --check $SD/patch.diff || { echo "PATCH-DOES-NOT-APPLY"; exit 2; }
cp $SD/demo_test.go $PKG/zz_demo_test.go
if go test -vet=off -count=1 -run 'Demo|ZZ' ./$PKG >/tmp/try_demo_clean.log 2>&1; then echo "demo-on-clean: PASS"; else echo "demo-on-clean: FAIL(!)"; tail -5 /tmp/try_demo_clean.log; fi
git apply $SD/patch.diff
if go test -vet=off -count=1 -run 'Demo|ZZ' ./$PKG >/tmp/try_demo_mut.log 2>&1; then echo "demo-with-change: PASS(!)"; else echo "demo-with-change: FAIL (as intended)"; fi
rm -f $PKG/zz_demo_test.go
if go build ./... >/tmp/try_suite.log 2>&1 && go test -vet=off -count=1 ./... >>/tmp/try_suite.log 2>&1; then echo "suite-with-change: PASS"; else echo "suite-with-change: FAIL(!)"; grep -E "^(FAIL|---)" /tmp/try_suite.log | head -5; fi
git checkout -q -- .
cd /repo && git apply $SD/patch.diff || { echo "cannot apply to /repo"; exit 2; }
for id in "$@"; do
  /verif/bin/gosym check $id --tier quick > /tmp/try_check_$id.log 2>&1; rc=$?
  echo "check $id: exit=$rc $(grep -E '^(VIOLATION|INCONCLUSIVE|UNCONFIRMED)' /tmp/try_check_$id.log | head -3 | tr '\n' ' ')"
done
git -C /repo checkout -q -- .
git -C /repo status --short | head -3
