#!/usr/bin/env python3
"""Regenerates /verif/MANIFEST.json from /verif/tools/manifest_src.json + properties.jsonl."""
import json
src = json.load(open('/verif/tools/manifest_src.json'))
props = [json.loads(l) for l in open('/verif/properties.jsonl')]
checks = []
na = []
for p in props:
    pid = p['id']
    c = src['checks'].get(pid)
    if c is None:
        na.append({"property_id": pid, "reason": src['not_applicable'].get(pid, "check not built yet; see DESIGN.md for the plan")})
        continue
    checks.append({
        "property_id": pid,
        "quick_cmd": f"/verif/bin/gosym check {pid} --tier quick",
        "thorough_cmd": f"/verif/bin/gosym check {pid} --tier thorough",
        "evidence_file": f"/verif/evidence/{pid}.json",
        "replay_cmd_template": "/verif/bin/gosym replay {path}",
        "engine": "gosym",
        "level_claimed": {"category": "model_checking", "text": c['text'], "design_ref": c.get('design_ref', 'DESIGN.md §3 ' + pid)},
        "level_note": c['note'],
        "technique": c.get('technique', "bounded symbolic execution of the real Go code (go/ssa -> SMT-LIB2), every obligation and branch feasibility decided by z3; counterexamples replayed natively"),
    })
m = {
    "version": 1,
    "setup_cmd": "cd /verif/gosym && GOFLAGS=-mod=mod GOPROXY=off GOSUMDB=off GOTOOLCHAIN=local go build -o /verif/bin/gosym ./cmd/gosym",
    "hooks": {"guard": "verif",
              "enable": "harnesses, environment models and the intrinsics package (zzverif/verif) live in /verif/harness and are injected with go/packages and `go test -overlay` overlays, all under build tag `verif`; /repo carries no hooks",
              "baseline_off_cmd": "cd /repo && GOFLAGS=-mod=mod GOPROXY=off go test -vet=off -count=1 -timeout 25m ./...",
              "source_commits": [], "add_only": True},
    "engines": [{"name": "gosym", "path": "/verif/gosym", "serves_properties": [c['property_id'] for c in checks],
                 "kind_free_text": "forking symbolic executor for go/ssa (x/tools v0.29.0) written for this task: symbolic JSON leaves (bit-vector strings, IEEE floats, booleans), lazy JSON shapes, map iteration order as explicit choice, write monitor, panics as path outcomes; SMT-LIB2 to a persistent z3 process per worker; solver models replayed against the natively compiled code"}],
    "checks": checks,
    "notes": src.get('notes', ''),
    "not_applicable": na,
}
json.dump(m, open('/verif/MANIFEST.json', 'w'), indent=1)
print("checks:", [c['property_id'] for c in checks], "n/a:", [n['property_id'] for n in na])
