#!/usr/bin/env python3
"""save_seed.py <property id> <src dir> <dest letter> <demo pkg dir> <needs> <result>  - copies a confirmed seeded change into /verif/seeded."""
import json, sys, shutil, os
pid, src, letter, pkg, needs, result = sys.argv[1:7]
titles = {json.loads(l)['id']: json.loads(l)['title'] for l in open('/verif/properties.jsonl')}
d = f'/verif/seeded/{pid}-{letter}'
os.makedirs(d, exist_ok=True)
for f in ('patch.diff', 'demo_test.go', 'README.txt'):
    if os.path.exists(os.path.join(src, f)):
        shutil.copy(os.path.join(src, f), os.path.join(d, f))
json.dump({"property": pid, "breaks": f"Property {pid}: {titles[pid]}", "needs_to_manifest": needs,
  "author": "independent sub-agent given only the property text and a scratch worktree " + "(" + os.environ.get("SEED_ROUND","fourth") + " round)",
  "demo": {"file": "demo_test.go", "package_dir": pkg, "run": f"copy to <worktree>/{pkg}/zz_demo_test.go; go test -vet=off -count=1 -run Demo ./{pkg}"},
  "confirmed_by_me": "tools/try_seed.sh in a scratch worktree of /repo HEAD: demo passes on the clean tree, fails with the patch; whole suite (go test ./...) passes with the patch",
  "checks_run": "SEED_IN_WORKTREE=1 tools/try_seed.sh: the patch is applied in the scratch worktree and `gosym check <id> --tier quick` is pointed at it (GOSYM_REPO), because other runs were reading /repo at the time",
  "result": result}, open(os.path.join(d, 'meta.json'), 'w'), indent=1)
print("saved", d)
