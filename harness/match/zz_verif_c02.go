//go:build verif

package match

import (
	"github.com/Comcast/sheens/zzverif/verif"
)

// C02 (completeness), "planted witness" construction.
//
// The harness builds, jointly, a pattern of the supported fragment and a message that contains an
// instance of it: shapes (map / property-variable map / array / variable / constant, where the extras
// go) are forked choices, every scalar is a symbolic JSON scalar, every value planted under a variable
// and every distractor is an unresolved symbolic JSON value.  The assignment planted for the variables
// is recorded; the real Match is then executed symbolically on (pattern, message, given) and the
// obligation is that one of the returned binding sets IS the planted assignment.  Distractors are free to
// partially or fully match as well (that only adds results).  The assumptions are exactly the ones of the
// property's quantifier: message arrays are sets, a value planted under an array variable differs from
// that array's constant members, repeated variables take scalars, no planted string begins with '?'.

type c02Gen struct {
	assign   Bindings        // the planted assignment = the expected binding set
	scalarOf map[string]bool // variable has a scalar value (may be repeated)
	free     []string        // variable names not used yet
	uid      int
	plain    bool // no optional / anonymous variable, no repetition, nothing pre-bound so far
	// configuration of one slice of the input space
	maxExtra    int  // distractors per map / array
	budget      int  // composite (map / array) pattern nodes still allowed
	kinds       int  // composite kinds allowed: kMap | kProp | kArr
	vars        int  // variable kinds allowed: vAny | vScalar | vAnon | vOpt
	allPos      bool // every position of the distractors / of the array variable
	sort        int  // JSON types of the scalars
	topDepth    int  // depth of the outermost composite: it gets maxExtra distractors, nested ones nestedExtra
	nestedExtra int
	noArrVar    bool // arrays without a variable of their own
	structExtra bool // array distractors are structured values only
}

// extras: how many distractors the composite at this depth may get.
func (g *c02Gen) extras(depth int, tag string) int {
	n := g.nestedExtra
	if depth == g.topDepth {
		n = g.maxExtra
	}
	if n == 0 {
		return 0
	}
	return verif.Choose(g.id(tag+".nextra"), n+1)
}

const (
	kMap = 1 << iota
	kProp
	kArr
)

const (
	vAny = 1 << iota
	vScalar
	vAnon
	vOpt
)

func (g *c02Gen) id(s string) string {
	g.uid++
	return s + string(rune('a'+g.uid/10)) + string(rune('0'+g.uid%10))
}

// scalar / structured value options of this path: quick runs give all scalars of one path the same JSON
// type (a number or a string, chosen per path), thorough runs leave every scalar's type open
func (g *c02Gen) scalarOpts() verif.Opts {
	return verif.Opts{Depth: 0, Tags: g.sort, NoVar: true, Finite: true}
}

func (g *c02Gen) structOpts() verif.Opts {
	t := verif.TMap | verif.TArr
	if verif.Tier() == 0 {
		t = verif.TMap
	}
	return verif.Opts{Depth: 1, Width: 1, Tags: t, Leaf: g.sort, NoVar: true, NoVarKeys: true, Finite: true, Pool: []string{"a", "b"}}
}

func isScalarJSON(x interface{}) bool {
	switch x.(type) {
	case map[string]interface{}, []interface{}:
		return false
	}
	return true
}

// newVar takes an unused variable name.
func (g *c02Gen) newVar() (string, bool) {
	if len(g.free) == 0 {
		return "", false
	}
	v := g.free[0]
	g.free = g.free[1:]
	return v, true
}

// value returns what is planted under a variable: kind 0 scalar, 1 structured, 2 anything (unresolved).
func (g *c02Gen) value(kind int) interface{} {
	if kind == 2 {
		// unresolved: a scalar or a map; Match decides whether it ever looks inside
		o := g.structOpts()
		o.Tags = g.sort | verif.TMap
		return verif.AnyJSON(g.id("val"), o)
	}
	if kind == 0 {
		return verif.AnyJSON(g.id("val"), g.scalarOpts())
	}
	return verif.AnyJSON(g.id("val"), g.structOpts())
}

// genVar: a variable occurrence in value position (map value or the whole pattern); returns the pattern
// string and the planted value.  present=false: an optional variable whose key is to be left out.
func (g *c02Gen) genVar(tag string, inMap bool) (p string, m interface{}, present bool) {
	var opts []int
	if g.vars&vAny != 0 {
		opts = append(opts, 0)
	}
	if g.vars&vScalar != 0 {
		opts = append(opts, 1)
	}
	if g.vars&vAnon != 0 {
		opts = append(opts, 2)
	}
	if g.vars&vOpt != 0 && inMap {
		opts = append(opts, 3, 4)
	}
	if len(opts) == 0 {
		return "", nil, true
	}
	switch opts[verif.Choose(g.id(tag+".var"), len(opts))] {
	case 0: // a new plain variable, any value
		if v, ok := g.newVar(); ok {
			val := g.value(2)
			g.assign[v] = val
			return v, val, true
		}
	case 1: // a plain variable with a scalar value: new, or a repetition of an earlier one
		for _, v := range []string{"?x", "?y"} {
			if g.scalarOf[v] {
				g.plain = false
				return v, g.assign[v], true
			}
		}
		if v, ok := g.newVar(); ok {
			val := g.value(0)
			g.assign[v] = val
			g.scalarOf[v] = true
			return v, val, true
		}
	case 2: // anonymous
		g.plain = false
		return "?", g.value(2), true
	case 3: // optional, present
		g.plain = false
		if _, have := g.assign["??o"]; !have {
			val := g.value(2)
			g.assign["??o"] = val
			return "??o", val, true
		}
	case 4: // optional, absent
		g.plain = false
		if _, have := g.assign["??o"]; !have {
			return "??o", nil, false
		}
	}
	// fall back: a constant
	return "", nil, true
}

// gen returns a pattern and a message containing an instance of it.
func (g *c02Gen) gen(depth int, tag string, inMap bool) (p, m interface{}, present bool) {
	opts := []int{0, 1}
	if depth > 0 && g.budget > 0 {
		if g.kinds&kMap != 0 {
			opts = append(opts, 2)
		}
		if g.kinds&kProp != 0 {
			opts = append(opts, 3)
		}
		if g.kinds&kArr != 0 {
			opts = append(opts, 4)
		}
	}
	switch opts[verif.Choose(g.id(tag+".shape"), len(opts))] {
	case 0: // scalar constant
	case 1:
		if pv, mv, pres := g.genVar(tag, inMap); pv != "" {
			return pv, mv, pres
		}
	case 2:
		p, m = g.genMap(depth, tag)
		return p, m, true
	case 3:
		p, m = g.genPropVar(depth, tag)
		return p, m, true
	case 4:
		p, m = g.genArray(depth, tag)
		return p, m, true
	}
	c := verif.AnyJSON(g.id("const"), g.scalarOpts())
	return c, c, true
}

// extraKey: a message key the pattern does not mention at this level.
func (g *c02Gen) extraKey(taken []string) string {
	k := verif.AnyString(g.id("xkey"))
	verif.Assume(!isVar(k))
	for _, t := range taken {
		verif.Assume(k != t)
	}
	return k
}

func (g *c02Gen) genMap(depth int, tag string) (interface{}, interface{}) {
	g.budget--
	pm := map[string]interface{}{}
	mm := map[string]interface{}{}
	keys := []string{"a", "b"}
	nk := 1 + verif.Choose(g.id(tag+".nkeys"), 2)
	// extras may be inserted before or after the planted entries (insertion order is one of the orders
	// the executor explores anyway; this makes the interesting one early)
	nx := g.extras(depth, tag)
	taken := append([]string{}, keys[:nk]...)
	first := nx > 0 && verif.Choose(g.id(tag+".xfirst"), 2) == 0
	addExtras := func() {
		for i := 0; i < nx; i++ {
			k := g.extraKey(taken)
			taken = append(taken, k)
			mm[k] = g.value(2)
		}
	}
	if first && nx > 0 {
		addExtras()
	}
	for _, k := range keys[:nk] {
		sp, sm, pres := g.gen(depth-1, tag+"."+k, true)
		pm[k] = sp
		if pres {
			mm[k] = sm
		}
	}
	if !first && nx > 0 {
		addExtras()
	}
	return pm, mm
}

func (g *c02Gen) genPropVar(depth int, tag string) (interface{}, interface{}) {
	g.budget--
	kv := "?"
	key := verif.AnyString(g.id("pkey"))
	verif.Assume(!isVar(key))
	if g.vars&vAnon == 0 || verif.Choose(g.id(tag+".anon"), 2) == 0 {
		if v, ok := g.newVar(); ok {
			kv = v
			g.assign[v] = key
			g.scalarOf[v] = true
		}
	}
	if kv == "?" {
		g.plain = false
	}
	sp, sm, _ := g.gen(depth-1, tag+".pv", false)
	mm := map[string]interface{}{}
	nx := g.extras(depth, tag)
	at := nx // quick: the planted entry is inserted last (every iteration order is explored anyway)
	if g.allPos {
		at = verif.Choose(g.id(tag+".at"), nx+1)
	}
	taken := []string{key}
	for i := 0; i <= nx; i++ {
		if i == at {
			mm[key] = sm
		}
		if i < nx {
			k := g.extraKey(taken)
			taken = append(taken, k)
			mm[k] = g.value(2)
		}
	}
	return map[string]interface{}{kv: sp}, mm
}

func (g *c02Gen) genArray(depth int, tag string) (interface{}, interface{}) {
	g.budget--
	var pa, planted []interface{}
	ne := verif.Choose(g.id(tag+".nelem"), 3)
	for i := 0; i < ne; i++ {
		if depth < 2 || g.budget <= 0 || g.kinds&(kMap|kArr) == 0 || verif.Choose(g.id(tag+".ekind"), 2) == 0 {
			c := verif.AnyJSON(g.id("const"), g.scalarOpts())
			pa = append(pa, c)
			planted = append(planted, c)
			continue
		}
		// a structured element (its own variables allowed: backtracking over candidates)
		var sp, sm interface{}
		if g.kinds&kArr == 0 || (g.kinds&kMap != 0 && verif.Choose(g.id(tag+".estruct"), 2) == 0) {
			sp, sm = g.genMap(depth-1, tag+".e")
		} else {
			sp, sm = g.genArray(depth-1, tag+".e")
		}
		pa = append(pa, sp)
		planted = append(planted, sm)
	}
	// at most one variable directly inside the array
	avar := []int{0}
	if g.vars&(vAny|vScalar) != 0 && !g.noArrVar {
		avar = append(avar, 1)
	}
	if g.vars&vAnon != 0 {
		avar = append(avar, 2)
	}
	switch avar[verif.Choose(g.id(tag+".avar"), len(avar))] {
	case 1:
		if v, ok := g.newVar(); ok {
			val := g.value(verif.Choose(g.id(tag+".avalkind"), 2))
			if isScalarJSON(val) {
				g.scalarOf[v] = true
			}
			g.assign[v] = val
			planted = append(planted, val)
			if g.allPos && verif.Choose(g.id(tag+".avarpos"), 2) == 0 {
				pa = append([]interface{}{v}, pa...)
			} else {
				pa = append(pa, v)
			}
		}
	case 2:
		g.plain = false
		planted = append(planted, g.value(verif.Choose(g.id(tag+".avalkind"), 2)))
		pa = append(pa, "?")
	}
	// distractors: scalars or structured values, before or after the planted members
	nx := g.extras(depth, tag)
	var extras []interface{}
	for i := 0; i < nx; i++ {
		if g.structExtra {
			extras = append(extras, g.value(1))
		} else {
			extras = append(extras, g.value(verif.Choose(g.id(tag+".xkind"), 2)))
		}
	}
	var ma []interface{}
	xpos := 0
	if nx > 0 || g.allPos {
		n := 2
		if g.allPos {
			n = 3
		}
		xpos = verif.Choose(g.id(tag+".xpos"), n)
	}
	switch xpos {
	case 0:
		ma = append(append(ma, extras...), planted...)
	case 1:
		ma = append(append(ma, planted...), extras...)
	default: // reversed planted members, extras in front
		ma = append(ma, extras...)
		for i := len(planted) - 1; i >= 0; i-- {
			ma = append(ma, planted[i])
		}
	}
	// the message array is a set: no duplicate scalar members (this also makes a scalar planted under the
	// array variable differ from the constant members)
	for i := range ma {
		for j := i + 1; j < len(ma); j++ {
			if isScalarJSON(ma[i]) && isScalarJSON(ma[j]) {
				verif.Assume(verif.Not(verif.JSONEqual(ma[i], ma[j])))
			}
		}
	}
	if pa == nil {
		pa = []interface{}{}
	}
	if ma == nil {
		ma = []interface{}{}
	}
	return pa, ma
}

// sameBindings: r is exactly the planted assignment.
func sameBindings(r Bindings, a Bindings) bool {
	if len(r) != len(a) {
		return false
	}
	res := true
	for _, k := range verif.Keys(a) {
		got, have := r[k]
		if !have {
			return false
		}
		res = verif.And(res, verif.JSONEqual(got, a[k]))
	}
	return res
}

// c02Slice: one slice of the space of (pattern, message with a planted instance).
type c02Slice struct {
	name                                 string
	depth, budget, kinds, vars, maxExtra int
	top                                  int // composite kind the pattern starts with (0: anything)
	sorts                                []int
	allPos, prebound                     bool
	nestedExtra                          int
	noArrVar, structExtra                bool
}

var c02All = vAny | vScalar | vAnon | vOpt

func c02Slices() map[string]c02Slice {
	num, both := []int{verif.TF64}, []int{verif.TF64, verif.TStr}
	if verif.Tier() > 0 {
		// (nesting 3 with three composite nodes and every scalar type did not finish in 10 minutes, nor did the
		// quick shapes with every iteration order everywhere; the thorough tier keeps the shapes and orders of
		// the quick tier and takes numbers AND strings as scalars in every slice)
		return map[string]c02Slice{
			"maps":          {depth: 2, budget: 2, kinds: kMap, vars: vAny | vScalar | vOpt, maxExtra: 1, nestedExtra: 1, top: kMap, sorts: both},
			"propvars":      {depth: 2, budget: 2, kinds: kMap | kProp, vars: vAny | vScalar, maxExtra: 2, nestedExtra: 0, top: kProp, allPos: true, sorts: both},
			"flat-arrays":   {depth: 1, budget: 1, kinds: kArr, vars: vAny | vAnon, maxExtra: 2, top: kArr, allPos: true, sorts: both},
			"struct-arrays": {depth: 2, budget: 3, kinds: kMap, vars: vScalar, maxExtra: 1, nestedExtra: 0, top: kArr, sorts: both, noArrVar: true, structExtra: true},
			"mixed":         {depth: 2, budget: 2, kinds: kMap | kProp | kArr, vars: vAny | vAnon, maxExtra: 1, nestedExtra: 0, sorts: both},
			"prebound":      {depth: 2, budget: 2, kinds: kMap | kProp | kArr, vars: vScalar, maxExtra: 1, nestedExtra: 0, prebound: true, sorts: both},
		}
	}
	return map[string]c02Slice{
		// maps in maps, plain / repeated / optional variables, one distractor per map
		// (scalars here are numbers or null: a present null is a value, not a missing property)
		"maps": {depth: 2, budget: 2, kinds: kMap, vars: vAny | vScalar | vOpt, maxExtra: 1, nestedExtra: 1, top: kMap, sorts: []int{verif.TF64 | verif.TNil}},
		// a property variable over a message map with up to two other keys
		"propvars": {depth: 2, budget: 2, kinds: kMap | kProp, vars: vAny | vScalar, maxExtra: 2, nestedExtra: 0, top: kProp, allPos: true, sorts: num},
		// flat arrays: constants, the array variable, scalar and structured distractors at every position
		"flat-arrays": {depth: 1, budget: 1, kinds: kArr, vars: vAny | vAnon, maxExtra: 2, top: kArr, allPos: true, sorts: both},
		// arrays of structured elements (backtracking over candidates that partially match)
		"struct-arrays": {depth: 2, budget: 3, kinds: kMap, vars: vScalar, maxExtra: 1, nestedExtra: 0, top: kArr, sorts: num, noArrVar: true, structExtra: true},
		// everything nested once in everything
		"mixed": {depth: 2, budget: 2, kinds: kMap | kProp | kArr, vars: vAny | vAnon, maxExtra: 1, nestedExtra: 0, sorts: num},
		// the caller already knows one of the variables
		"prebound": {depth: 2, budget: 2, kinds: kMap | kProp | kArr, vars: vScalar, maxExtra: 1, nestedExtra: 0, prebound: true, sorts: num},
	}
}

func c02Run(sl c02Slice) (plainChecked bool) {
	g := &c02Gen{assign: Bindings{}, scalarOf: map[string]bool{}, free: []string{"?x", "?y"}, plain: true,
		maxExtra: sl.maxExtra, budget: sl.budget, kinds: sl.kinds, vars: sl.vars, allPos: sl.allPos,
		topDepth: sl.depth, nestedExtra: sl.nestedExtra, noArrVar: sl.noArrVar, structExtra: sl.structExtra}
	g.sort = sl.sorts[0]
	if len(sl.sorts) > 1 {
		g.sort = sl.sorts[verif.Choose("scalar-sort", len(sl.sorts))]
	}
	var p, m interface{}
	switch sl.top {
	case kMap:
		p, m = g.genMap(sl.depth, "p")
	case kProp:
		p, m = g.genPropVar(sl.depth, "p")
	case kArr:
		g.kinds |= kArr
		p, m = g.genArray(sl.depth, "p")
		g.kinds = sl.kinds
	default:
		p, m, _ = g.gen(sl.depth, "p", false)
	}
	// optionally the caller already knows one of the scalar variables
	given := NewBindings()
	if sl.prebound {
		for _, v := range []string{"?x", "?y"} {
			if val, have := g.assign[v]; have && g.scalarOf[v] {
				given[v] = val
				g.plain = false
				break
			}
		}
		verif.Assume(len(given) > 0)
	}
	// iteration orders of the pattern and message maps (mapcatMatch) are explored; the index maps of the array
	// matcher are iterated in insertion order (their order only permutes the result list)
	verif.ExploreMapOrderIn("(*github.com/Comcast/sheens/match.Matcher).mapcatMatch")
	bss, err := Match(p, m, given)
	verif.Assert("planted-instance-no-error", err == nil)
	verif.Assert("planted-instance-matches", len(bss) > 0)
	found := false
	for _, r := range bss {
		found = verif.Or(found, sameBindings(r, g.assign))
	}
	verif.Assert("planted-assignment-among-results", found)
	verif.Reach("planted-found")
	if g.plain {
		// plain patterns: the results are exactly the embeddings: every result is one (soundness, with the
		// C01 reference) and every embedding is a result (above, for the arbitrary planted one)
		for _, r := range bss {
			verif.Assert("plain-result-is-an-embedding", contained(p, r, given, m))
			verif.Assert("plain-result-binds-only-pattern-variables", len(r) == len(g.assign))
		}
		return true
	}
	return false
}

// VerifC02*: completeness, slice by slice.
func VerifC02Maps() {
	if c02Run(c02Slices()["maps"]) {
		verif.Reach("plain-exact")
	}
}
func VerifC02PropVars() {
	if c02Run(c02Slices()["propvars"]) {
		verif.Reach("plain-exact")
	}
}
func VerifC02FlatArrays() {
	if c02Run(c02Slices()["flat-arrays"]) {
		verif.Reach("plain-exact")
	}
}
func VerifC02StructArrays() {
	if c02Run(c02Slices()["struct-arrays"]) {
		verif.Reach("plain-exact")
	}
}
func VerifC02Mixed() {
	if c02Run(c02Slices()["mixed"]) {
		verif.Reach("plain-exact")
	}
}
func VerifC02Prebound() { c02Run(c02Slices()["prebound"]) }
