//go:build verif

package match

import (
	"strings"

	"github.com/Comcast/sheens/zzverif/verif"
)

// This file holds the reference semantics ("oracle") of pattern matching, written from
// README.md §"Pattern matching", match/match.md and the Matcher.Inequalities documentation.
// The functions return booleans built with verif.And/Or so that, under the symbolic executor,
// a whole containment check becomes ONE formula over the symbolic leaves instead of a fork per
// comparison.  Natively they are ordinary Go.

func isVar(s string) bool    { return strings.HasPrefix(s, "?") }
func isOptVar(s string) bool { return strings.HasPrefix(s, "??") }
func numeric(x interface{}) (float64, bool) {
	switch v := x.(type) {
	case float64:
		return v, true
	case float32:
		return float64(v), true
	case int64:
		return float64(v), true
	case int32:
		return float64(v), true
	case int:
		return float64(v), true
	}
	return 0, false
}

// Operator codes of inequality-named variables.
const (
	opNone = iota
	opLE
	opGE
	opNE
	opGT
	opLT
)

// ineqParts splits an inequality-named variable "?<op>rest" (documented operators only, tried in the
// documented order "<=", ">=", "!=", ">", "<").  Written without branching on the string so that the
// symbolic executor does not fork: op is a code, plain the counterpart "?"+rest.
func ineqParts(v string) (op int, plain string, ok bool) {
	rest := verif.SuffixFrom(v, 1)
	le := strings.HasPrefix(rest, "<=")
	ge := strings.HasPrefix(rest, ">=")
	ne := strings.HasPrefix(rest, "!=")
	gt := strings.HasPrefix(rest, ">")
	lt := strings.HasPrefix(rest, "<")
	two := verif.Or(le, verif.Or(ge, ne))
	op = verif.IteInt(le, opLE, verif.IteInt(ge, opGE, verif.IteInt(ne, opNE, verif.IteInt(gt, opGT, verif.IteInt(lt, opLT, opNone)))))
	plain = "?" + verif.IteStr(two, verif.SuffixFrom(v, 3), verif.SuffixFrom(v, 2))
	ok = verif.And(verif.And(strings.HasPrefix(v, "?"), len(v) > 2), verif.Or(two, verif.Or(gt, lt)))
	return op, plain, ok
}

func relHolds(op int, a, b float64) bool {
	return verif.Or(verif.And(op == opLT, a < b),
		verif.Or(verif.And(op == opLE, a <= b),
			verif.Or(verif.And(op == opGT, a > b),
				verif.Or(verif.And(op == opGE, a >= b),
					verif.And(op == opNE, a != b)))))
}

// containedConst: containment of a variable-free value (a bound value re-used as sub-pattern) in a fact:
// scalars equal, maps key-wise, arrays as sets with distinct witnesses.
func containedConst(p interface{}, f interface{}) bool {
	if verif.SameObject(p, f) {
		return true
	}
	if pn, is := numeric(p); is {
		fn, isf := numeric(f)
		if !isf {
			return false
		}
		return pn == fn
	}
	switch pv := p.(type) {
	case nil:
		return f == nil
	case bool:
		fb, is := f.(bool)
		if !is {
			return false
		}
		return pv == fb
	case string:
		fs, is := f.(string)
		if !is {
			return false
		}
		return pv == fs
	case map[string]interface{}:
		fm, is := f.(map[string]interface{})
		if !is {
			return false
		}
		res := true
		for _, k := range verif.Keys(pv) {
			some := false
			for _, fk := range verif.Keys(fm) {
				eq := fk == k
				if !verif.Possible(eq) {
					continue
				}
				some = verif.Or(some, verif.And(eq, containedConst(pv[k], fm[fk])))
			}
			res = verif.And(res, some)
		}
		return res
	case []interface{}:
		fa, is := f.([]interface{})
		if !is {
			return false
		}
		return arrConst(pv, 0, fa, 0)
	}
	return false
}

func arrConst(xs []interface{}, i int, fa []interface{}, used int) bool {
	if i == len(xs) {
		return true
	}
	res := false
	for j := range fa {
		if used&(1<<uint(j)) == 0 {
			res = verif.Or(res, verif.And(containedConst(xs[i], fa[j]), arrConst(xs, i+1, fa, used|(1<<uint(j)))))
		}
	}
	return res
}

// containedVar: what a variable occurrence v facing fact f demands of the final bindings r.
// given are the bindings the caller passed in (they decide whether v is a pre-bound inequality).
// The bindings are searched by enumeration (one disjunct per entry) instead of a keyed lookup so that
// the symbolic executor does not fork on which entry a symbolic name denotes.
func containedVar(v string, r Bindings, given Bindings, f interface{}) bool {
	pre := false
	for _, gk := range verif.Keys(given) {
		pre = verif.Or(pre, gk == v)
	}
	res := v == "?"
	for _, rk := range verif.Keys(r) {
		eq := rk == v
		if !verif.Possible(eq) {
			continue
		}
		res = verif.Or(res, verif.And(eq, boundFits(v, r[rk], pre, f)))
	}
	return res
}

// boundFits: variable v, bound to `bound`, faces fact f.
func boundFits(v string, bound interface{}, pre bool, f interface{}) bool {
	plain := containedConst(bound, f)
	b, bnum := numeric(bound)
	a, anum := numeric(f)
	if !bnum || !anum {
		return plain
	}
	op, _, isIneq := ineqParts(v)
	// the statement demands the numeric relation between the fact and the bound; it allows (does not
	// demand) a binding for the plain-named counterpart
	ineq := verif.And(isIneq, relHolds(op, a, b))
	// documented case (pre): the inequality variable was bound by the caller to a number: the relation is
	// required. Not pre-bound: the documentation is silent; either reading is accepted.
	return verif.IteBool(verif.And(pre, isIneq), ineq, verif.Or(plain, ineq))
}

// contained: pattern p, instantiated by r, is contained in fact f (README partial-matching rules).
func contained(p interface{}, r Bindings, given Bindings, f interface{}) bool {
	if pn, is := numeric(p); is {
		fn, isf := numeric(f)
		if !isf {
			return false
		}
		return pn == fn
	}
	switch pv := p.(type) {
	case nil:
		return f == nil
	case bool:
		fb, is := f.(bool)
		if !is {
			return false
		}
		return pv == fb
	case string:
		constCase := false
		if fs, is := f.(string); is {
			constCase = pv == fs
		}
		return verif.IteBool(isVar(pv), containedVar(pv, r, given, f), constCase)
	case map[string]interface{}:
		fm, is := f.(map[string]interface{})
		if !is {
			return false
		}
		if len(pv) == 1 {
			for _, k := range verif.Keys(pv) {
				if isVar(k) {
					// property variable as the sole key: some fact key matches it and its value
					res := false
					for _, fk := range verif.Keys(fm) {
						res = verif.Or(res, verif.And(containedVar(k, r, given, fk), contained(pv[k], r, given, fm[fk])))
					}
					return res
				}
			}
		}
		res := true
		for _, k := range verif.Keys(pv) {
			fv, have := fm[k]
			if !have {
				if s, isS := pv[k].(string); isS && isOptVar(s) {
					continue
				}
				return false
			}
			res = verif.And(res, contained(pv[k], r, given, fv))
		}
		return res
	case []interface{}:
		fa, is := f.([]interface{})
		if !is {
			return false
		}
		return arrContained(pv, 0, r, given, fa, 0)
	}
	return false
}

func arrContained(xs []interface{}, i int, r Bindings, given Bindings, fa []interface{}, used int) bool {
	if i == len(xs) {
		return true
	}
	res := false
	if s, isS := xs[i].(string); isS {
		// an optional array variable may stay unmatched
		res = verif.And(isOptVar(s), arrContained(xs, i+1, r, given, fa, used))
	}
	for j := range fa {
		if used&(1<<uint(j)) == 0 {
			res = verif.Or(res, verif.And(contained(xs[i], r, given, fa[j]), arrContained(xs, i+1, r, given, fa, used|(1<<uint(j)))))
		}
	}
	return res
}

// occursVar: k is a variable string occurring in p (as a value, array member or property name),
// or the plain-named counterpart of an inequality variable occurring in p that is bound in given.
func occursVar(k string, p interface{}, given Bindings) bool {
	switch pv := p.(type) {
	case string:
		// an inequality-named variable also licenses its plain-named counterpart
		_, plain, ok := ineqParts(pv)
		return verif.And(isVar(pv), verif.Or(pv == k, verif.And(ok, plain == k)))
	case map[string]interface{}:
		res := false
		for _, pk := range verif.Keys(pv) {
			res = verif.Or(res, occursVar(k, pk, given))
			res = verif.Or(res, occursVar(k, pv[pk], given))
		}
		return res
	case []interface{}:
		res := false
		for _, x := range pv {
			res = verif.Or(res, occursVar(k, x, given))
		}
		return res
	}
	return false
}

// sound: result r of matching p against m from given is sound (C01).
func checkSound(p, m interface{}, given Bindings, r Bindings) {
	for _, k := range verif.Keys(given) {
		got, have := r[k]
		verif.Assert("given-binding-kept", have)
		verif.Assert("given-binding-unchanged", verif.JSONEqual(got, given[k]))
	}
	for _, k := range verif.Keys(r) {
		if _, was := given[k]; was {
			continue
		}
		verif.Assert("binds-only-pattern-variables", occursVar(k, p, given))
	}
	verif.Assert("instance-contained-in-message", contained(p, r, given, m))
}
