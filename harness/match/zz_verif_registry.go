//go:build verif

package match

var verifHarnesses = map[string]func(){
	"VerifC01":         VerifC01,
	"VerifC03":         VerifC03,
	"VerifOrderLemmas": VerifOrderLemmas,
}
