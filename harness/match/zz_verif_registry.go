//go:build verif

package match

var verifHarnesses = map[string]func(){
	"VerifC01":             VerifC01,
	"VerifC02Maps":         VerifC02Maps,
	"VerifC02PropVars":     VerifC02PropVars,
	"VerifC02FlatArrays":   VerifC02FlatArrays,
	"VerifC02StructArrays": VerifC02StructArrays,
	"VerifC02Mixed":        VerifC02Mixed,
	"VerifC02Prebound":     VerifC02Prebound,
	"VerifC03Concurrent":   VerifC03Concurrent,
	"VerifC03":             VerifC03,
	"VerifOrderLemmas":     VerifOrderLemmas,
}
