//go:build verif

package match

import (
	"sync"

	"github.com/Comcast/sheens/zzverif/verif"
)

// ---- known-finding predicates (narrow, input-based) ----

// countVar counts occurrences of variable v in p (values, array members, property names).
func countVarOcc(p interface{}, v string) int {
	n := 0
	switch pv := p.(type) {
	case string:
		if pv == v {
			n++
		}
	case map[string]interface{}:
		for _, k := range verif.Keys(pv) {
			if k == v {
				n++
			}
			n += countVarOcc(pv[k], v)
		}
	case []interface{}:
		for _, x := range pv {
			n += countVarOcc(x, v)
		}
	}
	return n
}

// collectVars lists the variable strings of p (with repetitions).
func collectVars(p interface{}, acc []string) []string {
	switch pv := p.(type) {
	case string:
		if isVar(pv) {
			acc = append(acc, pv)
		}
	case map[string]interface{}:
		for _, k := range verif.Keys(pv) {
			if isVar(k) {
				acc = append(acc, k)
			}
			acc = collectVars(pv[k], acc)
		}
	case []interface{}:
		for _, x := range pv {
			acc = collectVars(x, acc)
		}
	}
	return acc
}

func hasStructured(m interface{}, depth int) bool {
	switch mv := m.(type) {
	case map[string]interface{}:
		if depth > 0 {
			return true
		}
		for _, k := range verif.Keys(mv) {
			if hasStructured(mv[k], depth+1) {
				return true
			}
		}
	case []interface{}:
		if depth > 0 {
			return true
		}
		for _, x := range mv {
			if hasStructured(x, depth+1) {
				return true
			}
		}
	}
	return false
}

// c03F1: a non-anonymous variable that the caller did not bind occurs at least twice in the pattern and
// the message has a structured value below its root (so that the first occurrence can bind a map or an
// array, which the second occurrence then RE-MATCHES as a sub-pattern instead of comparing for equality).
func c03F1(p, m interface{}, given Bindings) bool {
	if !hasStructured(m, 0) {
		return false
	}
	vars := collectVars(p, nil)
	for i, v := range vars {
		if v == "?" {
			continue
		}
		if _, pre := given[v]; pre {
			continue
		}
		for j := i + 1; j < len(vars); j++ {
			if vars[j] == v {
				return true
			}
		}
	}
	return false
}

// c03F3: an inequality-named variable ("?<n", "?>=x", ...) interferes with another variable occurrence:
// (a) the caller did not bind it and the pattern has a second variable occurrence - its first visit binds
// it like a plain variable, a later visit (or a visit after its name was bound as somebody's counterpart)
// reads it as an inequality; or (b) its plain-named counterpart ("?n" for "?<n") also occurs in the
// pattern, as a variable or as the counterpart of another inequality variable - who binds the
// counterpart first decides the outcome.  Documented use (a pre-bound inequality variable whose
// counterpart is not otherwise mentioned) is not affected.
func c03F3(p interface{}, given Bindings) bool {
	vars := collectVars(p, nil)
	for i, v := range vars {
		_, cp, ok := ineqParts(v)
		if !ok {
			continue
		}
		if _, pre := given[v]; !pre && len(vars) > 1 {
			return true
		}
		for j, w := range vars {
			if i == j {
				continue
			}
			if w == cp {
				return true
			}
			if _, cw, okw := ineqParts(w); okw && cw == cp {
				return true
			}
		}
	}
	return false
}

// invalidHere: p itself is a construct for which Match reports an error.
func invalidHere(p interface{}) bool {
	switch pv := p.(type) {
	case nil, bool, float64, string:
		return false
	case map[string]interface{}:
		if len(pv) > 1 {
			for _, k := range verif.Keys(pv) {
				if isVar(k) {
					return true
				}
			}
		}
		return false
	case []interface{}:
		n := 0
		for _, x := range pv {
			if s, is := x.(string); is && isVar(s) {
				n++
			}
		}
		return n > 1
	}
	return true // a Go type JSON cannot produce
}

func containsInvalid(p interface{}) bool {
	if invalidHere(p) {
		return true
	}
	switch pv := p.(type) {
	case map[string]interface{}:
		for _, k := range verif.Keys(pv) {
			if containsInvalid(pv[k]) {
				return true
			}
		}
	case []interface{}:
		for _, x := range pv {
			if containsInvalid(x) {
				return true
			}
		}
	}
	return false
}

// c03F2: an invalid construct sits strictly inside a map pattern with at least two properties (or inside
// an array next to other members): whether the error or a clean no-match is reported depends on which
// property the matcher happens to visit first.
func c03F2(p interface{}) bool {
	switch pv := p.(type) {
	case map[string]interface{}:
		for _, k := range verif.Keys(pv) {
			if len(pv) > 1 && containsInvalid(pv[k]) {
				return true
			}
			if c03F2(pv[k]) {
				return true
			}
		}
	case []interface{}:
		for _, x := range pv {
			if len(pv) > 1 && containsInvalid(x) {
				return true
			}
			if c03F2(x) {
				return true
			}
		}
	}
	return false
}

// ---- multiset comparison of results ----

func bssEqualFrom(a []Bindings, i int, b []Bindings, used int) bool {
	if i == len(a) {
		return true
	}
	res := false
	for j := range b {
		if used&(1<<uint(j)) == 0 {
			res = verif.Or(res, verif.And(verif.JSONEqual(map[string]interface{}(a[i]), map[string]interface{}(b[j])), bssEqualFrom(a, i+1, b, used|(1<<uint(j)))))
		}
	}
	return res
}

func sameMultiset(a, b []Bindings) bool {
	if len(a) != len(b) {
		return false
	}
	return bssEqualFrom(a, 0, b, 0)
}

func c03Bounds() (pd, pw, pn, md, mw, mn, bw int) {
	if verif.Tier() > 0 {
		// (pattern width 3 / 5 nodes did not finish in 15 minutes)
		return 2, 2, 4, 2, 3, 4, 1
	}
	return 2, 2, 3, 2, 2, 4, 1
}

// VerifC03: Match is deterministic over map iteration orders, leaves its arguments untouched and
// returns independent maps.
func VerifC03() {
	pd, pw, pn, md, mw, mn, bw := c03Bounds()
	p := verif.AnyJSON("p", verif.Opts{Depth: pd, Width: pw, Nodes: pn, Tags: verif.TagsJSON | verif.TAlien, Finite: true})
	m := verif.AnyJSON("m", verif.Opts{Depth: md, Width: mw, Nodes: mn, NoVar: true, NoVarKeys: true, Finite: true})
	given := Bindings(verif.AnyMap("bs", verif.Opts{Depth: 1, Width: bw, NoVar: true, Finite: true}))

	verif.Freeze(p, "pattern")
	verif.Freeze(m, "message")
	verif.Freeze(map[string]interface{}(given), "bindings")

	// reference run: maps iterated in insertion order
	verif.MapOrderInsertion(true)
	r1, e1 := Match(p, m, given)
	verif.MapOrderInsertion(false)
	// second evaluation: every iteration order of every map involved is explored
	r2, e2 := Match(p, m, given)

	verif.AssertNoWrites("arguments-never-modified", "pattern", "message", "bindings")

	sameErr := (e1 == nil) == (e2 == nil)
	sameRes := true
	if e1 == nil && e2 == nil {
		verif.Reach("both-ok")
		sameRes = sameMultiset(r1, r2)
	}
	if !verif.And(sameErr, sameRes) {
		// a difference: is it one of the listed known findings (narrow, input-based predicates)?
		if verif.Known("C03-F1") && c03F1(p, m, given) {
			verif.Note("excluded-C03-F1")
			return
		}
		if verif.Known("C03-F2") && c03F2(p) {
			verif.Note("excluded-C03-F2")
			return
		}
		if verif.Known("C03-F3") && c03F3(p, given) {
			verif.Note("excluded-C03-F3")
			return
		}
		verif.Assert("same-error-outcome", sameErr)
		verif.Assert("same-multiset-of-results", sameRes)
	}
	for i, r := range r2 {
		verif.Assert("result-not-the-given-map", !verif.SameObject(map[string]interface{}(r), map[string]interface{}(given)))
		for j := 0; j < i; j++ {
			verif.Assert("results-independent", !verif.SameObject(map[string]interface{}(r), map[string]interface{}(r2[j])))
		}
		for _, x := range r1 {
			verif.Assert("results-independent-across-calls", !verif.SameObject(map[string]interface{}(r), map[string]interface{}(x)))
		}
	}
	verif.Reach("end")
}

// VerifOrderLemmas: the helper functions in which the other harnesses use insertion order only are shown
// here, with every iteration order explored, to produce the same map whatever the order.
func VerifOrderLemmas() {
	verif.NoOrderLemma(true)
	bs := Bindings(verif.AnyMap("bs", verif.Opts{Depth: 1, Width: 3}))
	c := bs.Copy()
	verif.Assert("Bindings.Copy-order-insensitive", verif.JSONEqual(map[string]interface{}(c), map[string]interface{}(bs)))
	verif.Assert("Bindings.Copy-fresh", !verif.SameObject(map[string]interface{}(c), map[string]interface{}(bs)))
	src := map[int]interface{}{}
	n := verif.Choose("n", 4)
	for i := 0; i < n; i++ {
		src[i] = verif.AnyJSON("x", verif.Opts{Depth: 0})
	}
	cp := copyMap(src)
	verif.Assert("copyMap-size", len(cp) == len(src))
	for i := 0; i < n; i++ {
		v, have := cp[i]
		verif.Assert("copyMap-has", have)
		verif.Assert("copyMap-value", verif.SameObject(v, src[i]) || verif.JSONEqual(v, src[i]))
	}
	verif.Reach("end")
}

// VerifC03Concurrent: the same pattern value (and message) matched from two goroutines at once, each with
// its own bindings: no access of the matcher to shared memory is a write unordered with another access
// (happens-before detector of the executor: what `go test -race` reports), and each goroutine gets the
// result it gets alone.
func VerifC03Concurrent() {
	p := verif.AnyJSON("p", verif.Opts{Depth: 2, Width: 2, Nodes: 3, Finite: true})
	m := verif.AnyJSON("m", verif.Opts{Depth: 1, Width: 2, NoVar: true, NoVarKeys: true, Finite: true})
	given := Bindings(verif.AnyMap("bs", verif.Opts{Depth: 1, Width: 1, NoVar: true, Finite: true}))
	verif.MapOrderInsertion(true) // (order dependence is VerifC03's subject)
	var res [2][]Bindings
	var errs [2]error
	var wg sync.WaitGroup
	wg.Add(2)
	for i := 0; i < 2; i++ {
		i := i
		bs := given.Copy()
		go func() {
			defer wg.Done()
			res[i], errs[i] = Match(p, m, bs)
		}()
	}
	wg.Wait()
	// (the reference run comes last: a run before the goroutines would order its accesses before theirs)
	alone, errAlone := Match(p, m, given.Copy())
	for _, r := range verif.RaceReports() {
		verif.Note("race: " + r)
		verif.Assert("no-data-race", false)
	}
	for i := 0; i < 2; i++ {
		verif.Assert("concurrent-same-outcome", (errs[i] != nil) == (errAlone != nil))
		verif.Assert("concurrent-same-result-count", len(res[i]) == len(alone))
	}
	verif.Reach("concurrent-done")
}
