//go:build verif

package match

import (
	"github.com/Comcast/sheens/zzverif/verif"
)

func c01Bounds() (pd, pw, pn, md, mw, bw int) {
	if verif.Tier() > 0 {
		// (pattern width 3 / 6 nodes with two given bindings did not finish in 15 minutes)
		return 2, 2, 4, 2, 3, 1
	}
	return 2, 2, 3, 2, 2, 1
}

// VerifC01: every result of Match is sound (extends the given bindings, binds only pattern variables,
// instantiated pattern contained in the message).
func VerifC01() {
	pd, pw, pn, md, mw, bw := c01Bounds()
	p := verif.AnyJSON("p", verif.Opts{Depth: pd, Width: pw, Nodes: pn, Tags: verif.TagsJSON | verif.TAlien, Finite: true})
	m := verif.AnyJSON("m", verif.Opts{Depth: md, Width: mw, Nodes: 4, NoVar: true, NoVarKeys: true, Finite: true})
	given := Bindings(verif.AnyMap("bs", verif.Opts{Depth: 1, Width: bw, NoVar: true, Finite: true}))
	bss, err := Match(p, m, given)
	if err != nil {
		verif.Reach("error")
		return
	}
	if len(bss) == 0 {
		verif.Reach("no-match")
		return
	}
	verif.Reach("match")
	for _, r := range bss {
		checkSound(p, m, given, r)
	}
	verif.Reach("checked")
}

// VerifMatchOnly: exploration cost of Match alone at the C01 bounds (development aid).
func VerifMatchOnly() {
	pd, pw, pn, md, mw, bw := c01Bounds()
	p := verif.AnyJSON("p", verif.Opts{Depth: pd, Width: pw, Nodes: pn, Tags: verif.TagsJSON | verif.TAlien, Finite: true})
	m := verif.AnyJSON("m", verif.Opts{Depth: md, Width: mw, Nodes: 4, NoVar: true, NoVarKeys: true, Finite: true})
	given := Bindings(verif.AnyMap("bs", verif.Opts{Depth: 1, Width: bw, NoVar: true, Finite: true}))
	Match(p, m, given)
}
