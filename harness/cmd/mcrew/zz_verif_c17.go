//go:build verif

package main

import (
	"context"
	"time"

	"github.com/Comcast/sheens/zzverif/verif"
)

type firing struct {
	id  string
	at  time.Time
	due time.Time
}

type c17req struct {
	add bool
	id  string
	d   time.Duration
	err error
	at  time.Time // when the request returned
	due time.Time
}

var c17ids = []string{"t1", "t2"}

const (
	c17Short = 20 * time.Millisecond
	c17Long  = 400 * time.Millisecond
)

// VerifC17Mcrew: the mcrew timers: at most once, never early, cancel wins, the id is free from the moment
// the timer fires (also for the handler of the firing message), a timer re-created by the handler stays
// listed and cancellable, the map equals accepted - fired - cancelled once everything is quiet.
func VerifC17Mcrew() {
	var fired []firing
	var ts *Timers
	ctx, cancel := context.WithCancel(context.Background())
	defer cancel()
	// what the handler of the firing message does for "t1": nothing, Add(t1) again, Rem(t1)+Add(t1), Add(t2)
	handlerMode := verif.Choose("handler", 4)
	handlerDone := false
	var handlerAddErr, handlerRemErr error
	var handlerDue time.Time
	emitter := func(ctx context.Context, msg interface{}) error {
		id, _ := msg.(string)
		due := time.Time{}
		fired = append(fired, firing{id: id, at: time.Now().UTC(), due: due})
		if id == "t1" && !handlerDone {
			handlerDone = true
			handlerDue = time.Now().UTC().Add(c17Long)
			switch handlerMode {
			case 1:
				handlerAddErr = ts.Add(ctx, "t1", "t1", c17Long)
			case 2:
				handlerRemErr = ts.Rem(ctx, "t1")
				handlerAddErr = ts.Add(ctx, "t1", "t1", c17Long)
			case 3:
				handlerAddErr = ts.Add(ctx, "t2", "t2", c17Long)
			}
		}
		return nil
	}
	ts = NewTimers(emitter)

	// the requester: up to three make/cancel requests
	nreq := 1 + verif.Choose("nreq", 3)
	var reqs []*c17req
	for i := 0; i < nreq; i++ {
		tag := "req" + string(rune('0'+i))
		r := &c17req{id: c17ids[verif.Choose(tag+".id", 2)]}
		if i == 0 || verif.Choose(tag+".kind", 2) == 0 {
			r.add = true
			r.d = []time.Duration{c17Short, c17Long}[verif.Choose(tag+".delay", 2)]
			r.due = time.Now().UTC().Add(r.d)
			r.err = ts.Add(ctx, r.id, r.id, r.d)
		} else {
			r.err = ts.Rem(ctx, r.id)
		}
		r.at = time.Now().UTC()
		reqs = append(reqs, r)
		if verif.Choose(tag+".pause", 2) == 1 {
			time.Sleep(100 * time.Millisecond) // lets a short timer fire in between
		}
	}
	// wait until the short timers (and the handler) are done, but not the long ones
	time.Sleep(200 * time.Millisecond)

	// ---- every firing belongs to its own live timer instance that was due ----
	// instances: one per accepted Add (requester and handler), with the time it was cancelled (if it was)
	type inst struct {
		id        string
		due       time.Time
		cancelled bool
		cancelAt  time.Time
		fired     bool
	}
	var insts []*inst
	live := map[string]*inst{}
	for _, r := range reqs {
		if r.add && r.err == nil {
			t := &inst{id: r.id, due: r.due}
			insts = append(insts, t)
			live[r.id] = t
		} else if !r.add && r.err == nil {
			if t := live[r.id]; t != nil && !t.cancelled {
				t.cancelled, t.cancelAt = true, r.at
			}
		}
	}
	if handlerDone && handlerMode != 0 {
		hid := "t1"
		if handlerMode == 3 {
			hid = "t2"
		}
		if handlerMode == 2 && handlerRemErr == nil {
			if t := live["t1"]; t != nil && !t.cancelled {
				t.cancelled, t.cancelAt = true, handlerDue.Add(-c17Long)
			}
		}
		if handlerAddErr == nil {
			insts = append(insts, &inst{id: hid, due: handlerDue})
		}
	}
	count := map[string]int{}
	accepted := map[string]int{}
	for _, t := range insts {
		accepted[t.id]++
	}
	for _, f := range fired {
		count[f.id]++
		// the firing must be matched by an instance of that id that was due, had not been cancelled before
		// the firing, and has not fired yet
		matched := false
		for _, t := range insts {
			if t.id != f.id || t.fired || f.at.Before(t.due) {
				continue
			}
			if t.cancelled && !t.cancelAt.After(f.at) {
				continue // cancelled at or before the moment of firing: must never fire
			}
			t.fired, matched = true, true
			break
		}
		verif.Assert("each-firing-is-a-live-due-timer-firing-once", matched)
	}
	// ---- the id is free from the moment the timer fires, also for the handler ----
	if handlerDone && (handlerMode == 1) {
		verif.Assert("id-reusable-from-the-handler", handlerAddErr == nil)
	}
	if handlerDone && handlerMode == 2 && handlerRemErr == nil && handlerAddErr == nil {
		// the handler cancelled the (firing) entry and created a new long timer under the id: it must still
		// be listed and cancellable
		ts.Lock()
		_, listed := ts.timers["t1"]
		ts.Unlock()
		pendingLong := count["t1"] < accepted["t1"]
		if pendingLong {
			verif.Assert("recreated-timer-stays-listed", listed)
			verif.Assert("recreated-timer-cancellable", ts.Rem(ctx, "t1") == nil)
		}
	}
	verif.Reach("end")
	ts.Shutdown()
	time.Sleep(10 * time.Millisecond)
	verif.Assert("no-goroutine-left-after-shutdown", verif.Quiesce() == 0)
	// timer activity never corrupts shared state: no data race among the accesses of the code under test
	for _, r := range verif.RaceReports() {
		verif.Note("race: " + r)
		verif.Assert("no-data-race", false)
	}
}
