//go:build verif

package main

import (
	"bytes"
	"context"
	"log"
	"os"
	"sync"
	"time"

	"github.com/Comcast/sheens/zzverif/verif"
)

var c17ids = []string{"t1", "t2"}

const (
	c17Short = 20 * time.Millisecond
	c17Long  = 400 * time.Millisecond
)

// c17ev: one observable event of a timers scenario, in the order in which they were observed: a make or
// cancel request that returned (with its outcome), or a firing (the emitter was called).
type c17ev struct {
	kind string // "add", "rem", "fire"
	id   string
	ok   bool
	due  time.Time // add: when the timer is due
	at   time.Time
}

type c17log struct {
	sync.Mutex
	evs []c17ev
}

func (l *c17log) add(e c17ev) {
	l.Lock()
	e.at = time.Now().UTC()
	l.evs = append(l.evs, e)
	l.Unlock()
}

// c17inst: one accepted timer.
type c17inst struct {
	id               string
	due              time.Time
	fired, cancelled bool
	inFlight         bool // replaced at or after its due time: it may or may not still fire
}

// c17Check replays the event log against the statement: every firing belongs to an accepted timer of that
// id that was due, had not been cancelled and had not fired; a successful cancel removes the pending timer
// of that id (the newest one: an older one may already have expired and be about to emit).  replaces: a
// make request under a pending id replaces (cancels) the pending timer (sio) instead of being refused.
// Returns the timers still pending at the end.
func c17Check(evs []c17ev, replaces bool) []*c17inst {
	var insts []*c17inst
	newest := func(id string) *c17inst {
		for i := len(insts) - 1; i >= 0; i-- {
			if t := insts[i]; t.id == id && !t.fired && !t.cancelled && !t.inFlight {
				return t
			}
		}
		return nil
	}
	for _, e := range evs {
		switch {
		case e.kind == "add" && e.ok:
			if replaces {
				if old := newest(e.id); old != nil {
					if old.due.After(e.at) {
						old.cancelled = true // replaced while pending: never fires
					} else {
						old.inFlight = true // replaced at the moment it expired
					}
				}
			}
			insts = append(insts, &c17inst{id: e.id, due: e.due})
		case e.kind == "rem" && e.ok:
			t := newest(e.id)
			verif.Assert("cancel-succeeds-only-for-a-pending-timer", t != nil)
			if t != nil {
				t.cancelled = true
			}
		case e.kind == "fire":
			// a timer that is due and still pending first; else one that was replaced just as it expired
			matched := false
			for _, inFlight := range []bool{false, true} {
				for _, t := range insts { // oldest first
					if !matched && t.inFlight == inFlight && t.id == e.id && !t.fired && !t.cancelled && !e.at.Before(t.due) {
						t.fired, matched = true, true
					}
				}
			}
			verif.Assert("each-firing-is-a-live-due-timer-firing-once", matched)
		}
	}
	var pending []*c17inst
	for _, t := range insts {
		if !t.fired && !t.cancelled && !t.inFlight {
			pending = append(pending, t)
		}
	}
	return pending
}

// c17SlowLog: natively the window between a timer's expiry and its bookkeeping is a few microseconds wide.
// The service writes a (verbose) log line inside that window; sending the log through a writer that takes
// its time there widens the window, so that a request recorded as landing at the very moment of an expiry
// does land inside it when a counterexample is replayed.
type c17SlowLog struct{}

func (c17SlowLog) Write(p []byte) (int, error) {
	if bytes.Contains(p, []byte("Timers firing")) {
		time.Sleep(4 * time.Millisecond)
	}
	return len(p), nil
}

func VerifC17Mcrew() {
	if !verif.Symbolic() {
		Verbose = true
		log.SetOutput(c17SlowLog{})
		defer func() {
			Verbose = false
			log.SetOutput(os.Stderr)
		}()
	}
	lg := &c17log{}
	var ts *Timers
	ctx, cancel := context.WithCancel(context.Background())
	defer cancel()
	doAdd := func(id string, d time.Duration) error {
		due := time.Now().UTC().Add(d)
		err := ts.Add(ctx, id, id, d)
		lg.add(c17ev{kind: "add", id: id, ok: err == nil, due: due})
		return err
	}
	doRem := func(id string) error {
		err := ts.Rem(ctx, id)
		lg.add(c17ev{kind: "rem", id: id, ok: err == nil})
		return err
	}
	// what the handler of the firing message does for "t1": nothing, Add(t1) again, Rem(t1)+Add(t1), Add(t2)
	handlerMode := verif.Choose("handler", 4)
	handlerDone := false
	var handlerAddErr error
	emitter := func(ctx context.Context, msg interface{}) error {
		id, _ := msg.(string)
		lg.add(c17ev{kind: "fire", id: id})
		if id == "t1" && !handlerDone {
			handlerDone = true
			switch handlerMode {
			case 1:
				handlerAddErr = doAdd("t1", c17Long)
			case 2:
				doRem("t1")
				handlerAddErr = doAdd("t1", c17Long)
			case 3:
				handlerAddErr = doAdd("t2", c17Long)
			}
		}
		return nil
	}
	ts = NewTimers(emitter)

	// the requester: up to three make/cancel requests
	nreq := 1 + verif.Choose("nreq", 3)
	for i := 0; i < nreq; i++ {
		tag := "req" + string(rune('0'+i))
		id := c17ids[verif.Choose(tag+".id", 2)]
		if i == 0 || verif.Choose(tag+".kind", 2) == 0 {
			doAdd(id, []time.Duration{c17Short, c17Long}[verif.Choose(tag+".delay", 2)])
		} else {
			doRem(id)
		}
		if i == nreq-1 {
			break // a pause after the last request only delays the end of the scenario
		}
		switch verif.Choose(tag+".pause", 3) {
		case 1:
			time.Sleep(100 * time.Millisecond) // lets a short timer fire in between
		case 2:
			// exactly as long as a short timer takes: the next request lands at the very moment such a timer
			// expires (the scheduler explores both orders of the tie)
			time.Sleep(c17Short)
		}
	}
	// wait until the short timers (and the handler) are done, but not the long ones
	// (170 ms: no sum of the pauses above plus this wait equals a due time, so the scenario never ends at the
	// very moment a timer expires)
	time.Sleep(170 * time.Millisecond)

	lg.Lock()
	evs := append([]c17ev(nil), lg.evs...)
	lg.Unlock()
	pending := c17Check(evs, false)
	now := time.Now().UTC()
	// an accepted timer that nobody cancelled has fired once it is (well) past its due time
	for _, t := range pending {
		verif.Assert("accepted-timer-fires", t.due.After(now.Add(-50*time.Millisecond)))
	}
	// the id is free from the moment the timer fires, also for the handler of its message
	if handlerDone && handlerMode == 1 {
		verif.Assert("id-reusable-from-the-handler", handlerAddErr == nil)
	}
	// the map lists exactly the pending timers, and each of them is still cancellable
	want := map[string]bool{}
	unsettled := map[string]bool{} // a timer of that id expires within 30 ms of now: natively it may be in flight
	for _, t := range pending {
		want[t.id] = true
		if d := t.due.Sub(now); d < 30*time.Millisecond && d > -30*time.Millisecond {
			unsettled[t.id] = true
		}
	}
	for _, id := range c17ids {
		ts.Lock()
		_, listed := ts.timers[id]
		ts.Unlock()
		verif.Assert("map-equals-pending-timers", unsettled[id] || listed == want[id])
	}
	for _, t := range pending {
		if !unsettled[t.id] {
			verif.Assert("pending-timer-cancellable", ts.Rem(ctx, t.id) == nil)
		}
	}
	verif.Reach("end")
	ts.Shutdown()
	time.Sleep(10 * time.Millisecond)
	verif.Assert("no-goroutine-left-after-shutdown", verif.Quiesce() == 0)
	// timer activity never corrupts shared state: no data race among the accesses of the code under test
	for _, r := range verif.RaceReports() {
		verif.Note("race: " + r)
		verif.Assert("no-data-race", false)
	}
}

// VerifC17McrewTime: the same statement with TIME as a solver variable: a timer is made with an arbitrary
// delay d1, the requester waits an arbitrary time p and then cancels it, makes it again, or makes another
// one with an arbitrary delay d2 (all between 1 ms and 500 ms, as nanoseconds chosen by the solver).  Which
// of expiry and request comes first - or whether they coincide - is decided by the solver for ALL values of
// the delays; the event log is checked as in VerifC17Mcrew.
func VerifC17McrewTime() {
	d1 := time.Duration(verif.AnyInt("d1", 1_000_000, 500_000_000))
	p := time.Duration(verif.AnyInt("p", 1_000_000, 500_000_000))
	d2 := time.Duration(verif.AnyInt("d2", 1_000_000, 500_000_000))
	lg := &c17log{}
	var ts *Timers
	ctx, cancel := context.WithCancel(context.Background())
	defer cancel()
	doAdd := func(id string, d time.Duration) error {
		due := time.Now().UTC().Add(d)
		err := ts.Add(ctx, id, id, d)
		lg.add(c17ev{kind: "add", id: id, ok: err == nil, due: due})
		return err
	}
	ts = NewTimers(func(ctx context.Context, msg interface{}) error {
		id, _ := msg.(string)
		lg.add(c17ev{kind: "fire", id: id})
		return nil
	})
	doAdd("t1", d1)
	time.Sleep(p)
	switch verif.Choose("then", 3) {
	case 0:
		err := ts.Rem(ctx, "t1")
		lg.add(c17ev{kind: "rem", id: "t1", ok: err == nil})
	case 1:
		doAdd("t1", d2)
	default:
		doAdd("t2", d2)
	}
	time.Sleep(1100 * time.Millisecond) // everything that was going to fire has fired (delays are at most 500 ms each)
	lg.Lock()
	evs := append([]c17ev(nil), lg.evs...)
	lg.Unlock()
	pending := c17Check(evs, false)
	verif.Assert("accepted-timer-fires", len(pending) == 0)
	for _, id := range c17ids {
		ts.Lock()
		_, listed := ts.timers[id]
		ts.Unlock()
		verif.Assert("map-equals-pending-timers", !listed)
	}
	verif.Reach("time-done")
	ts.Shutdown()
	time.Sleep(10 * time.Millisecond)
	verif.Assert("no-goroutine-left-after-shutdown", verif.Quiesce() == 0)
}
