//go:build verif

package main

import (
	"context"
	"os"
	"path/filepath"
	"sync"
	"time"

	"github.com/Comcast/sheens/core"
	"github.com/Comcast/sheens/crew"
	"github.com/Comcast/sheens/interpreters/ecmascript"
	"github.com/Comcast/sheens/match"
	"github.com/Comcast/sheens/zzverif/verif"
)

// The specs the service can load.  Under the symbolic executor Service.GetSpec is replaced by a lookup in
// verifSpecs; natively the same specs are written as spec files (YAML is a superset of JSON) and the real
// GetSpec reads and compiles them.
var verifSpecs = map[string]*core.Spec{}

const flipYAML = `{"name":"flip","nodes":{
 "start":{"branching":{"type":"message","branches":[{"pattern":{"go":"?x"},"target":"s2"}]}},
 "s2":{"branching":{"type":"message","branches":[{"pattern":{"go":"?y"},"target":"start"}]}}}}`

// "anon": like flip, but it binds nothing (anonymous variables)
const anonYAML = `{"name":"anon","nodes":{
 "start":{"branching":{"type":"message","branches":[{"pattern":{"go":"?"},"target":"s2"}]}},
 "s2":{"branching":{"type":"message","branches":[{"pattern":{"go":"?"},"target":"start"}]}}}}`

func anonSpec() *core.Spec {
	s := &core.Spec{
		Name: "anon",
		Nodes: map[string]*core.Node{
			"start": {Branches: &core.Branches{Type: "message", Branches: []*core.Branch{{Pattern: map[string]interface{}{"go": "?"}, Target: "s2"}}}},
			"s2":    {Branches: &core.Branches{Type: "message", Branches: []*core.Branch{{Pattern: map[string]interface{}{"go": "?"}, Target: "start"}}}},
		},
	}
	if err := s.Compile(context.Background(), nil, true); err != nil {
		panic(err)
	}
	return s
}

func flipSpec() *core.Spec {
	s := &core.Spec{
		Name: "flip",
		Nodes: map[string]*core.Node{
			"start": {Branches: &core.Branches{Type: "message", Branches: []*core.Branch{{Pattern: map[string]interface{}{"go": "?x"}, Target: "s2"}}}},
			"s2":    {Branches: &core.Branches{Type: "message", Branches: []*core.Branch{{Pattern: map[string]interface{}{"go": "?y"}, Target: "start"}}}},
		},
	}
	if err := s.Compile(context.Background(), nil, true); err != nil {
		panic(err)
	}
	return s
}

// c16Service: a service over a fresh store with the "flip" spec available.
func c16Service(ctx context.Context) (*Service, func()) {
	dir, err := os.MkdirTemp("", "verif-c16-")
	if err != nil {
		panic(err)
	}
	if verif.Symbolic() {
		verifSpecs["flip"] = flipSpec()
		verifSpecs["anon"] = anonSpec()
	} else {
		if err := os.WriteFile(filepath.Join(dir, "flip.yaml"), []byte(flipYAML), 0644); err != nil {
			panic(err)
		}
		if err := os.WriteFile(filepath.Join(dir, "anon.yaml"), []byte(anonYAML), 0644); err != nil {
			panic(err)
		}
	}
	s, err := NewService(ctx, dir, filepath.Join(dir, "crew.db"), "")
	if err != nil {
		panic(err)
	}
	return s, func() { os.RemoveAll(dir) }
}

type c16Rec struct {
	node string
	bs   map[string]interface{}
}

type c16Snapshot map[string]c16Rec // machine id -> node and bindings

func snapMemory(s *Service) c16Snapshot {
	snap := c16Snapshot{}
	s.crew.RLock()
	for mid, m := range s.crew.Machines {
		snap[mid] = c16Rec{node: m.State.NodeName, bs: map[string]interface{}(m.State.Bs.Copy())}
	}
	s.crew.RUnlock()
	return snap
}

func snapStore(ctx context.Context, s *Service) (c16Snapshot, bool) {
	mss, err := s.store.GetCrew(ctx, s.crewName)
	if err != nil {
		return nil, false
	}
	snap := c16Snapshot{}
	for _, ms := range mss {
		bs := ms.Bs
		if bs == nil {
			bs = match.NewBindings()
		}
		snap[ms.Mid] = c16Rec{node: ms.NodeName, bs: map[string]interface{}(bs)}
	}
	return snap, true
}

func sameSnapshot(a, b c16Snapshot) bool {
	if len(a) != len(b) {
		return false
	}
	for _, mid := range []string{"a", "b"} {
		x, h1 := a[mid]
		y, h2 := b[mid]
		if h1 != h2 {
			return false
		}
		if h1 && (x.node != y.node || !verif.JSONEqual(x.bs, y.bs)) {
			return false
		}
	}
	return true
}

// one service operation; returns its error
func c16Op(ctx context.Context, s *Service, tag string) error {
	mid := []string{"a", "b"}[verif.Choose(tag+".mid", 2)]
	switch verif.Choose(tag+".op", 4) {
	case 0:
		return s.AddMachine(ctx, "flip", mid, "", nil)
	case 1:
		return s.RemMachine(ctx, mid)
	case 2: // a message for that machine
		_, err := s.Process(ctx, map[string]interface{}{"to": mid, "go": tag}, nil)
		return err
	default: // a message for everybody
		_, err := s.Process(ctx, map[string]interface{}{"go": tag}, nil)
		return err
	}
}

// VerifC16Faults: sequences of add / remove / process with the store failing from an arbitrary operation
// on (and possibly recovering): after every operation memory equals the store, and an operation whose
// write failed leaves the crew as it was.
func VerifC16Faults() {
	verif.MapOrderInsertion(true)
	ctx, cancel := context.WithCancel(context.Background())
	defer cancel()
	s, cleanup := c16Service(ctx)
	defer cleanup()
	nops := 3
	failFrom := verif.Choose("failFrom", nops+1) // the store is down from this operation on (nops: never)
	failFor := 1 + verif.Choose("failFor", 2)    // ... for this many operations
	for i := 0; i < nops; i++ {
		tag := "op" + string(rune('0'+i))
		down := i >= failFrom && i < failFrom+failFor
		if down {
			s.store.Close(ctx)
		}
		before := snapMemory(s)
		err := c16Op(ctx, s, tag)
		if down {
			// the store comes back (the same file): now memory and store can be compared
			if e := s.store.Open(ctx); e != nil {
				panic(e)
			}
		}
		after := snapMemory(s)
		stored, ok := snapStore(ctx, s)
		verif.Assert("store-readable", ok)
		if err != nil && down {
			verif.Reach("failed-write")
			verif.Assert("failed-operation-leaves-crew-as-it-was", sameSnapshot(before, after))
		}
		verif.Assert("memory-equals-store", sameSnapshot(after, stored))
	}
	verif.Reach("end")
}

// VerifC16Routing (C14, mcrew half): a message is presented to the named machine only, or to every machine
// when it carries no (string) routing target; the reserved name "timers" reaches no machine.
func VerifC16Routing() {
	verif.MapOrderInsertion(true)
	ctx, cancel := context.WithCancel(context.Background())
	defer cancel()
	s, cleanup := c16Service(ctx)
	defer cleanup()
	verif.Assert("add-a", s.AddMachine(ctx, "flip", "a", "", nil) == nil)
	if verif.Choose("haveB", 2) == 1 {
		verif.Assert("add-b", s.AddMachine(ctx, "flip", "b", "", nil) == nil)
	}
	msg := map[string]interface{}{"go": "x"}
	kind := verif.Choose("to", 5)
	switch kind {
	case 1:
		msg["to"] = "a"
	case 2:
		msg["to"] = "b"
	case 3:
		msg["to"] = "zz"
	case 4:
		msg["to"] = "timers"
		msg["deleteTimer"] = "none"
	}
	processed, err := s.Process(ctx, msg, nil)
	verif.Assert("process-ok", err == nil)
	_, haveB := s.crew.Machines["b"]
	want := map[string]bool{}
	switch kind {
	case 0:
		want["a"] = true
		if haveB {
			want["b"] = true
		}
	case 1:
		want["a"] = true
	case 2:
		if haveB {
			want["b"] = true
		}
	}
	verif.Assert("walked-count", len(processed) == len(want))
	for mid := range want {
		w, have := processed[mid]
		verif.Assert("addressed-machine-walked", have && w != nil)
		if have && w != nil {
			n := 0
			for _, sd := range w.Strides {
				if sd.Consumed != nil {
					n++
				}
			}
			verif.Assert("message-presented-exactly-once", n == 1)
		}
	}
	verif.Reach("end")
}

// VerifC16Concurrent: two clients at once: the outcome equals that of one of the two sequential orders and
// no update is lost (interleavings at lock operations and at store transactions are explored).
func VerifC16Concurrent() {
	verif.MapOrderInsertion(true)
	// goroutines may be switched before every lock acquisition (also uncontended ones) and at `go`
	verif.PreemptAtLocks(true)
	verif.PreemptAtGo(true)
	ctx, cancel := context.WithCancel(context.Background())
	defer cancel()
	s, cleanup := c16Service(ctx)
	defer cleanup()
	verif.Assert("add-a", s.AddMachine(ctx, "flip", "a", "", nil) == nil)
	ops := [2]int{verif.Choose("client0", 3), verif.Choose("client1", 3)}
	run := func(which int) {
		switch ops[which] {
		case 0:
			s.Process(ctx, map[string]interface{}{"to": "a", "go": "c"}, nil)
		case 1:
			s.AddMachine(ctx, "flip", "b", "", nil)
		default:
			s.RemMachine(ctx, "b")
		}
	}
	var wg sync.WaitGroup
	wg.Add(2)
	for i := 0; i < 2; i++ {
		i := i
		go func() {
			defer wg.Done()
			run(i)
		}()
	}
	wg.Wait()
	mem := snapMemory(s)
	stored, ok := snapStore(ctx, s)
	verif.Assert("store-readable", ok)
	verif.Assert("memory-equals-store", sameSnapshot(mem, stored))
	// no update lost: two messages flip the machine twice (back to start with ?x and ?y bound), one message once
	flips := 0
	for _, o := range ops {
		if o == 0 {
			flips++
		}
	}
	node := "start"
	if flips == 1 {
		node = "s2"
	}
	verif.Assert("no-update-lost", s.crew.Machines["a"].State.NodeName == node)
	if flips == 2 {
		_, hx := s.crew.Machines["a"].State.Bs["?x"]
		_, hy := s.crew.Machines["a"].State.Bs["?y"]
		verif.Assert("both-updates-applied", hx && hy)
	}
	verif.Reach("end")
	// request serialisation: the two clients never touch the crew or the store unordered
	for _, r := range verif.RaceReports() {
		verif.Note("race: " + r)
		verif.Assert("no-data-race", false)
	}
}

var _ = crew.NewSpecSource

// VerifC16Partial: a write that fails for ONE of the machines a message moved: machine "b" (spec flip) binds
// the message's value, machine "a" (spec anon) binds nothing; a message whose value cannot be serialised
// (NaN) makes b's record unwritable.  The operation fails and must leave BOTH machines as they were, in
// memory and in the store.
func VerifC16Partial() {
	verif.MapOrderInsertion(true)
	ctx, cancel := context.WithCancel(context.Background())
	defer cancel()
	s, cleanup := c16Service(ctx)
	defer cleanup()
	verif.Assert("add-a", s.AddMachine(ctx, "anon", "a", "", nil) == nil)
	verif.Assert("add-b", s.AddMachine(ctx, "flip", "b", "", nil) == nil)
	n := 1 + verif.Choose("nmsgs", 2)
	for i := 0; i < n; i++ {
		tag := "msg" + string(rune('0'+i))
		var v interface{} = 1.0
		if verif.Choose(tag+".nan", 2) == 1 {
			v = verif.NaN()
		}
		msg := map[string]interface{}{"go": v}
		if verif.Choose(tag+".to", 2) == 1 {
			msg["to"] = "b"
		}
		before := snapMemoryNodes(s)
		_, err := s.Process(ctx, msg, nil)
		after := snapMemoryNodes(s)
		stored, ok := snapStoreNodes(ctx, s)
		verif.Assert("store-readable", ok)
		if err != nil || !sameNodes(after, stored) {
			verif.Reach("write-failed")
		}
		verif.Assert("memory-equals-store", sameNodes(after, stored))
		if err != nil {
			// the write failed (for one machine): nobody advanced, neither in memory nor in the store
			verif.Assert("failed-operation-leaves-crew-as-it-was", sameNodes(before, after) && sameNodes(before, stored))
		}
		if !sameNodes(before, stored) && !sameNodes(after, before) {
			verif.Note("advanced")
		}
	}
	verif.Reach("end")
}

func snapMemoryNodes(s *Service) map[string]string {
	m := map[string]string{}
	s.crew.RLock()
	for mid, mach := range s.crew.Machines {
		m[mid] = mach.State.NodeName
	}
	s.crew.RUnlock()
	return m
}

func snapStoreNodes(ctx context.Context, s *Service) (map[string]string, bool) {
	mss, err := s.store.GetCrew(ctx, s.crewName)
	if err != nil {
		return nil, false
	}
	m := map[string]string{}
	for _, ms := range mss {
		m[ms.Mid] = ms.NodeName
	}
	return m, true
}

func sameNodes(a, b map[string]string) bool {
	if len(a) != len(b) {
		return false
	}
	for _, mid := range []string{"a", "b"} {
		if a[mid] != b[mid] {
			return false
		}
	}
	return true
}

// ---- emissions are fed back: each exactly once ----

// "emit2": on {"trigger":..} an ECMAScript action emits two messages for machine "b" in ONE stride
const emit2Source = `_.out({"to":"b","go":"m1"});
_.out({"to":"b","go":"m2"});
return _.bindings;`

const emit2YAML = `{"name":"emit2","nodes":{
 "start":{"branching":{"type":"message","branches":[{"pattern":{"trigger":"?t"},"target":"emit"}]}},
 "emit":{"action":{"interpreter":"ecmascript","source":"_.out({\"to\":\"b\",\"go\":\"m1\"});\n_.out({\"to\":\"b\",\"go\":\"m2\"});\nreturn _.bindings;"},
         "branching":{"branches":[{"target":"done"}]}},
 "done":{}}}`

// "collect": ends at "both" iff it received m1 and m2 exactly once each (in either order); a repeated
// message leads to "dup", a missing one leaves it on the way
const collectYAML = `{"name":"collect","nodes":{
 "start":{"branching":{"type":"message","branches":[{"pattern":{"go":"m1"},"target":"n1"},{"pattern":{"go":"m2"},"target":"n2"}]}},
 "n1":{"branching":{"type":"message","branches":[{"pattern":{"go":"m2"},"target":"both"},{"pattern":{"go":"m1"},"target":"dup"}]}},
 "n2":{"branching":{"type":"message","branches":[{"pattern":{"go":"m1"},"target":"both"},{"pattern":{"go":"m2"},"target":"dup"}]}},
 "both":{"branching":{"type":"message","branches":[{"pattern":{"go":"?again"},"target":"dup"}]}},
 "dup":{}}}`

func msgBranch(pattern map[string]interface{}, target string) *core.Branch {
	return &core.Branch{Pattern: pattern, Target: target}
}

func emit2Spec() *core.Spec {
	s := &core.Spec{
		Name: "emit2",
		Nodes: map[string]*core.Node{
			"start": {Branches: &core.Branches{Type: "message", Branches: []*core.Branch{msgBranch(map[string]interface{}{"trigger": "?t"}, "emit")}}},
			"emit": {ActionSource: &core.ActionSource{Interpreter: "ecmascript", Source: emit2Source},
				Branches: &core.Branches{Branches: []*core.Branch{{Target: "done"}}}},
			"done": {},
		},
	}
	if err := s.Compile(context.Background(), core.InterpretersMap{"ecmascript": ecmascript.NewInterpreter()}, true); err != nil {
		panic(err)
	}
	return s
}

func collectSpec() *core.Spec {
	go1, go2 := map[string]interface{}{"go": "m1"}, map[string]interface{}{"go": "m2"}
	s := &core.Spec{
		Name: "collect",
		Nodes: map[string]*core.Node{
			"start": {Branches: &core.Branches{Type: "message", Branches: []*core.Branch{msgBranch(go1, "n1"), msgBranch(go2, "n2")}}},
			"n1":    {Branches: &core.Branches{Type: "message", Branches: []*core.Branch{msgBranch(go2, "both"), msgBranch(go1, "dup")}}},
			"n2":    {Branches: &core.Branches{Type: "message", Branches: []*core.Branch{msgBranch(go1, "both"), msgBranch(go2, "dup")}}},
			"both":  {Branches: &core.Branches{Type: "message", Branches: []*core.Branch{msgBranch(map[string]interface{}{"go": "?again"}, "dup")}}},
			"dup":   {},
		},
	}
	if err := s.Compile(context.Background(), nil, true); err != nil {
		panic(err)
	}
	return s
}

// VerifC16Emissions: one action emits two messages in a single stride; the service feeds each of them back
// (asynchronously) exactly once: the addressee ends having seen each once, and the host is told of each once.
func VerifC16Emissions() {
	verif.MapOrderInsertion(true)
	ctx, cancel := context.WithCancel(context.Background())
	defer cancel()
	s, cleanup := c16Service(ctx)
	defer cleanup()
	if verif.Symbolic() {
		verifSpecs["emit2"] = emit2Spec()
		verifSpecs["collect"] = collectSpec()
	} else {
		if err := os.WriteFile(filepath.Join(s.specDir, "emit2.yaml"), []byte(emit2YAML), 0644); err != nil {
			panic(err)
		}
		if err := os.WriteFile(filepath.Join(s.specDir, "collect.yaml"), []byte(collectYAML), 0644); err != nil {
			panic(err)
		}
	}
	told := make(chan interface{}, 8)
	s.Emitted = told
	verif.Assert("add-a", s.AddMachine(ctx, "emit2", "a", "", nil) == nil)
	verif.Assert("add-b", s.AddMachine(ctx, "collect", "b", "", nil) == nil)
	_, err := s.Process(ctx, map[string]interface{}{"to": "a", "trigger": "now"}, nil)
	verif.Assert("process-ok", err == nil)
	// the emitted messages are processed asynchronously: let that finish
	if verif.Symbolic() {
		verif.Quiesce()
	} else {
		time.Sleep(300 * time.Millisecond)
	}
	s.crew.RLock()
	node := s.crew.Machines["b"].State.NodeName
	s.crew.RUnlock()
	verif.Assert("each-emission-processed-exactly-once", node == "both")
	verif.Assert("host-told-of-each-emission-once", len(told) == 2)
	verif.Reach("emissions-done")
}

// VerifC16Targets: the mcrew routing target as a solver variable: "to" is an arbitrary string; a machine is
// walked (once) iff the string is its id; reserved service names and unknown ids reach no machine.
func VerifC16Targets() {
	verif.MapOrderInsertion(true)
	ctx, cancel := context.WithCancel(context.Background())
	defer cancel()
	s, cleanup := c16Service(ctx)
	defer cleanup()
	verif.Assert("add-a", s.AddMachine(ctx, "flip", "a", "", nil) == nil)
	verif.Assert("add-b", s.AddMachine(ctx, "flip", "b", "", nil) == nil)
	to := verif.AnyString("to")
	verif.Assume(to != "timers" && to != "ws" && to != "http") // service requests need their own message shapes
	processed, err := s.Process(ctx, map[string]interface{}{"to": to, "go": "x"}, nil)
	verif.Assert("process-ok", err == nil)
	for _, mid := range []string{"a", "b"} {
		w, have := processed[mid]
		verif.Assert("walked-iff-named", have == (to == mid))
		if have && w != nil {
			n := 0
			for _, sd := range w.Strides {
				if sd.Consumed != nil {
					n++
				}
			}
			verif.Assert("message-presented-exactly-once", n == 1)
		}
	}
	verif.Assert("nobody-else-walked", len(processed) <= 1)
	verif.Reach("targets-done")
}
