//go:build verif

package main

var verifHarnesses = map[string]func(){
	"VerifC17Mcrew": VerifC17Mcrew,
}
