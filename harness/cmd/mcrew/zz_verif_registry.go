//go:build verif

package main

var verifHarnesses = map[string]func(){
	"VerifC17Mcrew":      VerifC17Mcrew,
	"VerifC17McrewTime":  VerifC17McrewTime,
	"VerifC16Faults":     VerifC16Faults,
	"VerifC16Partial":    VerifC16Partial,
	"VerifC16Routing":    VerifC16Routing,
	"VerifC16Concurrent": VerifC16Concurrent,
	"VerifC16Emissions":  VerifC16Emissions,
	"VerifC16Targets":    VerifC16Targets,
}
