//go:build verif

package core

import (
	"context"

	"github.com/Comcast/sheens/match"
	"github.com/Comcast/sheens/zzverif/verif"
)

// c06Opts: slices of the step/walk space for the purity properties (C06, C12): every action behaviour
// that completes, fails or rejects; guarded and unguarded vocabulary branches; error settings.
func c06Opts() (o specOpts, msg verif.Opts) {
	msg = smallMsgOpts()
	switch verif.Choose("slice", 3) {
	case 2:
		// branch-target variables
		o = specOpts{actionMode: 0, noNilBranches: true, branches: 1, patMode: 0, fixedErr: true, pooled: true, small: true, targetVars: true, noLog: true}
	case 0:
		o = specOpts{actionMode: 2, branches: 1, patMode: 0, fixedTarget: true, actKinds: kindsAction, pooled: true, small: true, noLog: true}
	default:
		o = specOpts{actionMode: 1, noNilBranches: true, branches: 1, patMode: 1, withGuards: true, fixedTarget: true, fixedErr: true,
			actKinds: []int{aSet, aFail}, grdKinds: []int{aIdent, aNilBs, aFail}, pooled: true, small: true, noLog: true}
		if verif.Tier() > 0 {
			// (two branches with every action and guard behaviour and free error settings did not finish in
			// 30 minutes, nor did two branches with free error settings in 15; the thorough tier takes two
			// branches and - see c06Inputs - one more message and one more step)
			o.branches = 2
		}
	}
	return o, msg
}

func c06Inputs(o specOpts, msgOpts verif.Opts) (b *builtSpec, st *State, msgs []interface{}, ctl *Control, props StepProps) {
	b = buildSpec(o)
	st = &State{NodeName: "n0", Bs: match.Bindings(verif.AnyMap("bs", c07Bindings(o)))}
	if verif.Choose("unknownNode", 3) == 2 {
		st.NodeName = "nowhere"
	}
	nm := verif.Choose("nmsgs", 2+verif.Tier())
	for i := 0; i < nm; i++ {
		msgs = append(msgs, verif.AnyJSON("msg", msgOpts))
	}
	ctl = &Control{Limit: 1 + verif.Choose("limit", 2+verif.Tier())}
	props = StepProps{"p": map[string]interface{}{"q": 1.0}}
	return
}

func freezeAll(b *builtSpec, st *State, msgs []interface{}, ctl *Control, props StepProps) {
	verif.Freeze(st, "state")
	verif.Freeze(msgs, "messages")
	verif.Freeze(b.spec, "spec")
	verif.Freeze(ctl, "control")
	verif.Freeze(map[string]interface{}(props), "props")
}

// VerifC06Walk: Spec.Walk (and the Steps it takes) never writes into state, messages, spec, control or
// props; returned states do not share a bindings map with the input; a second identical call gives an
// equal result.
func VerifC06Walk() {
	verif.MapOrderInsertion(true)
	o, msgOpts := c06Opts()
	b, st, msgs, ctl, props := c06Inputs(o, msgOpts)
	freezeAll(b, st, msgs, ctl, props)

	var w1, w2 *Walked
	var e1, e2 error
	panicked := true
	func() {
		defer func() { recover() }()
		w1, e1 = b.spec.Walk(context.Background(), st, msgs, ctl, props)
		panicked = false
	}()
	verif.Assume(!panicked) // crashes are C07's subject
	verif.AssertNoWrites("walk-arguments-never-modified", "state", "messages", "spec", "control", "props")
	if e1 != nil || w1 == nil {
		verif.Note("walk-error")
		return
	}
	for _, s := range w1.Strides {
		if s.From != nil {
			verif.Assert("from-bindings-not-shared", !verif.SameObject(map[string]interface{}(s.From.Bs), map[string]interface{}(st.Bs)))
		}
		if s.To != nil {
			verif.Assert("to-bindings-not-shared", !verif.SameObject(map[string]interface{}(s.To.Bs), map[string]interface{}(st.Bs)))
		}
	}
	if to := w1.To(); to != nil {
		verif.Reach("moved")
		verif.Assert("result-bindings-not-shared", !verif.SameObject(map[string]interface{}(to.Bs), map[string]interface{}(st.Bs)))
	}
	// retry with the same inputs
	w2, e2 = b.spec.Walk(context.Background(), st, msgs, ctl, props)
	verif.AssertNoWrites("walk-arguments-never-modified-on-retry", "state", "messages", "spec", "control", "props")
	verif.Assert("retry-same-error", (e2 == nil) == (e1 == nil))
	verif.Assert("retry-same-stride-count", len(w1.Strides) == len(w2.Strides))
	verif.Assert("retry-same-stop-reason", w1.StoppedBecause == w2.StoppedBecause)
	verif.Assert("retry-same-remaining", len(w1.Remaining) == len(w2.Remaining))
	t1, t2 := w1.To(), w2.To()
	verif.Assert("retry-same-movement", (t1 == nil) == (t2 == nil))
	if t1 != nil && t2 != nil {
		verif.Assert("retry-same-node", t1.NodeName == t2.NodeName)
		verif.Assert("retry-same-bindings", verif.JSONEqual(map[string]interface{}(t1.Bs), map[string]interface{}(t2.Bs)))
	}
	n1, n2 := 0, 0
	for _, s := range w1.Strides {
		n1 += len(s.Emitted)
	}
	for _, s := range w2.Strides {
		n2 += len(s.Emitted)
	}
	verif.Assert("retry-same-emissions", n1 == n2)
	verif.Reach("end")
}

// VerifC06Step: the same for a single Spec.Step.
func VerifC06Step() {
	verif.MapOrderInsertion(true)
	o, msgOpts := c06Opts()
	b, st, msgs, ctl, props := c06Inputs(o, msgOpts)
	var pending interface{}
	if len(msgs) > 0 {
		pending = msgs[0]
	}
	freezeAll(b, st, msgs, ctl, props)
	var s1 *Stride
	panicked := true
	func() {
		defer func() { recover() }()
		s1, _ = b.spec.Step(context.Background(), st, pending, ctl, props)
		panicked = false
	}()
	verif.Assume(!panicked)
	verif.AssertNoWrites("step-arguments-never-modified", "state", "messages", "spec", "control", "props")
	if s1 != nil {
		verif.Reach("stride")
		if s1.From != nil {
			verif.Assert("from-bindings-not-shared", !verif.SameObject(map[string]interface{}(s1.From.Bs), map[string]interface{}(st.Bs)))
		}
		if s1.To != nil {
			verif.Assert("to-bindings-not-shared", !verif.SameObject(map[string]interface{}(s1.To.Bs), map[string]interface{}(st.Bs)))
		}
	}
	verif.Reach("end")
}
