//go:build verif

package core

import (
	"context"
	"errors"
	"strings"

	"github.com/Comcast/sheens/match"
	"github.com/Comcast/sheens/zzverif/verif"
)

// VerifC18Exec: permanent bindings at the FuncAction.Exec level, every return shape of an action/guard.
func VerifC18Exec() {
	w := 2
	if verif.Tier() > 0 {
		w = 3
	}
	bs := match.Bindings(verif.AnyMap("bs", verif.Opts{Depth: 1, Width: w}))
	res := verif.Choose("result", 7)
	var out match.Bindings
	if res == 1 || res == 4 {
		out = match.Bindings(verif.AnyMap("out", verif.Opts{Depth: 1, Width: 2}))
	}
	a := &FuncAction{F: func(ctx context.Context, in match.Bindings, p StepProps) (*Execution, error) {
		switch res {
		case 0:
			return NewExecution(in), nil // same map back
		case 1:
			return NewExecution(out), nil // wholesale replacement
		case 2:
			return NewExecution(nil), nil // guard-style rejection
		case 3:
			return nil, errors.New("failed") // failure, no execution
		case 4:
			return NewExecution(out), errors.New("partial")
		case 5:
			// delete everything in place
			for k := range in {
				delete(in, k)
			}
			return NewExecution(in), nil
		default:
			return NewExecution(match.NewBindings()), nil
		}
	}}
	var exe *Execution
	var err error
	panicked := true
	func() {
		defer func() {
			if r := recover(); r != nil {
				panicked = true
			}
		}()
		exe, err = a.Exec(context.Background(), bs.Copy(), nil)
		panicked = false
	}()
	if verif.Known("C18-nilexec") {
		verif.Assume(!panicked)
	}
	verif.Assert("exec-does-not-panic", !panicked)
	if err == nil && exe != nil && exe.Bs != nil {
		verif.Reach("completed-with-bindings")
		for _, k := range verif.Keys(bs) {
			if strings.HasSuffix(k, "!") {
				got, have := exe.Bs[k]
				verif.Assert("permanent-kept", have)
				verif.Assert("permanent-value", verif.JSONEqual(got, bs[k]))
			}
		}
	}
	verif.Reach("end")
}
