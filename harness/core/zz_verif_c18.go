//go:build verif

package core

import (
	"context"
	"errors"
	"strings"

	"github.com/Comcast/sheens/match"
	"github.com/Comcast/sheens/zzverif/verif"
)

// VerifC18Exec: permanent bindings at the FuncAction.Exec level, every return shape of an action/guard.
func VerifC18Exec() {
	w := 2
	if verif.Tier() > 0 {
		w = 3
	}
	bs := match.Bindings(verif.AnyMap("bs", verif.Opts{Depth: 1, Width: w}))
	res := verif.Choose("result", 8)
	var out match.Bindings
	if res == 1 || res == 4 {
		out = match.Bindings(verif.AnyMap("out", verif.Opts{Depth: 1, Width: 2}))
	}
	a := &FuncAction{F: func(ctx context.Context, in match.Bindings, p StepProps) (*Execution, error) {
		switch res {
		case 0:
			return NewExecution(in), nil // same map back
		case 1:
			return NewExecution(out), nil // wholesale replacement
		case 2:
			return NewExecution(nil), nil // guard-style rejection
		case 3:
			return nil, errors.New("failed") // failure, no execution
		case 4:
			return NewExecution(out), errors.New("partial")
		case 7:
			// delete everything in place, then fail, handing the same map back
			for k := range in {
				delete(in, k)
			}
			return NewExecution(in), errors.New("failed after deleting")
		case 5:
			// delete everything in place
			for k := range in {
				delete(in, k)
			}
			return NewExecution(in), nil
		default:
			return NewExecution(match.NewBindings()), nil
		}
	}}
	var exe *Execution
	var err error
	panicked := true
	func() {
		defer func() {
			if r := recover(); r != nil {
				panicked = true
			}
		}()
		exe, err = a.Exec(context.Background(), bs.Copy(), nil)
		panicked = false
	}()
	if verif.Known("C18-nilexec") {
		verif.Assume(!panicked)
	}
	verif.Assert("exec-does-not-panic", !panicked)
	if err != nil && exe != nil && exe.Bs != nil {
		// a failing action that hands bindings back: the permanent ones are still in place
		for _, k := range verif.Keys(bs) {
			if strings.HasSuffix(k, "!") {
				got, have := exe.Bs[k]
				verif.Assert("permanent-kept-on-failure", have)
				verif.Assert("permanent-value-on-failure", verif.JSONEqual(got, bs[k]))
			}
		}
	}
	if err == nil && exe != nil && exe.Bs != nil {
		verif.Reach("completed-with-bindings")
		for _, k := range verif.Keys(bs) {
			if strings.HasSuffix(k, "!") {
				got, have := exe.Bs[k]
				verif.Assert("permanent-kept", have)
				verif.Assert("permanent-value", verif.JSONEqual(got, bs[k]))
			}
		}
	}
	verif.Reach("end")
}

// VerifC18Twice: one compiled action (or guard) serves many machines and node visits: the same FuncAction
// is executed twice, with two unrelated sets of bindings; whatever the first execution saw, the second one
// still keeps every permanent binding IT was given (the action deletes everything in place, or returns
// other bindings).
func VerifC18Twice() {
	bs1 := match.Bindings(verif.AnyMap("bs1", verif.Opts{Depth: 1, Width: 2}))
	bs2 := match.Bindings(verif.AnyMap("bs2", verif.Opts{Depth: 1, Width: 2}))
	res := verif.Choose("result", 2)
	a := &FuncAction{F: func(ctx context.Context, in match.Bindings, p StepProps) (*Execution, error) {
		if res == 0 {
			for k := range in {
				delete(in, k)
			}
			return NewExecution(in), nil
		}
		return NewExecution(match.NewBindings()), nil
	}}
	_, err1 := a.Exec(context.Background(), bs1.Copy(), nil)
	verif.Assert("first-execution-succeeds", err1 == nil)
	exe, err := a.Exec(context.Background(), bs2.Copy(), nil)
	verif.Assert("second-execution-succeeds", err == nil && exe != nil && exe.Bs != nil)
	if err == nil && exe != nil && exe.Bs != nil {
		for _, k := range verif.Keys(bs2) {
			if strings.HasSuffix(k, "!") {
				got, have := exe.Bs[k]
				verif.Assert("permanent-kept-on-a-later-execution", have)
				verif.Assert("permanent-value-on-a-later-execution", verif.JSONEqual(got, bs2[k]))
			}
		}
		for _, k := range verif.Keys(exe.Bs) {
			// ... and nothing of the first execution's bindings leaks into the second
			if _, mine := bs2[k]; !mine {
				verif.Assert("nothing-leaks-from-an-earlier-execution", false)
			}
		}
	}
	verif.Reach("twice-done")
}

// VerifC18Step: at the level of a whole step (action, then guarded or unguarded branches, error routing):
// every permanent binding of the state is present, with its previous value, in the state the step
// produces - whatever the action or guard deleted, overwrote or returned instead, and also when the
// action fails or the step ends at an error-handling node.
func VerifC18Step() {
	verif.MapOrderInsertion(true)
	o := specOpts{actionMode: 1, noNilBranches: true, noMessage: true, branches: 1, patMode: 1, withGuards: true, fixedTarget: true,
		actKinds: kindsC18, grdKinds: kindsGuard, pooled: true, small: true}
	if verif.Tier() > 0 {
		o.small = false
	}
	b := buildSpec(o)
	bo := smallBindingsOpts()
	bo.Width = 2
	if verif.Choose("symbolicNames", 2) == 1 {
		bo.Pool = nil // the solver chooses which names end in '!'
		bo.Width = 1
	}
	st := &State{NodeName: "n0", Bs: match.Bindings(verif.AnyMap("bs", bo))}
	orig := st.Bs.Copy()
	var stride *Stride
	panicked := true
	func() {
		defer func() { recover() }()
		stride, _ = b.spec.Step(context.Background(), st, nil, nil, nil)
		panicked = false
	}()
	verif.Assume(!panicked) // C07
	if stride == nil || stride.To == nil {
		verif.Reach("no-transition")
		return
	}
	verif.Reach("transition")
	for _, k := range verif.Keys(orig) {
		if strings.HasSuffix(k, "!") {
			got, have := stride.To.Bs[k]
			verif.Assert("permanent-binding-kept", have)
			verif.Assert("permanent-binding-unchanged", verif.JSONEqual(got, orig[k]))
		}
	}
}

// VerifCoreOrderLemmas: FuncAction.Exec ranges over the bindings to collect the permanent ones and over
// that collection to write them back; its result does not depend on either order (all orders explored
// here), so the other harnesses iterate those loops in insertion order only.
func VerifCoreOrderLemmas() {
	verif.NoOrderLemma(true)
	bs := match.Bindings(verif.AnyMap("bs", verif.Opts{Depth: 1, Width: 3, Pool: []string{"a!", "b!", "c", "d!"}, ValPool: []string{"v"}, Leaf: verif.TStr | verif.TF64, Finite: true}))
	mode := verif.Choose("mode", 3)
	a := &FuncAction{F: func(ctx context.Context, in match.Bindings, p StepProps) (*Execution, error) {
		switch mode {
		case 0:
			return NewExecution(match.Bindings{"fresh": 1.0}), nil
		case 1:
			out := in.Copy()
			for _, k := range verif.Keys(in) {
				out[k] = "overwritten"
			}
			return NewExecution(out), nil
		}
		return NewExecution(in), nil
	}}
	exe, err := a.Exec(context.Background(), bs.Copy(), nil)
	verif.Assert("exec-ok", err == nil && exe != nil && exe.Bs != nil)
	if exe == nil {
		return
	}
	// the result is fully determined: permanent ones restored, everything else as the action left it
	for _, k := range verif.Keys(bs) {
		if strings.HasSuffix(k, "!") {
			verif.Assert("FuncAction.Exec-order-insensitive", verif.JSONEqual(exe.Bs[k], bs[k]))
		} else if mode == 1 {
			verif.Assert("FuncAction.Exec-order-insensitive", verif.JSONEqual(exe.Bs[k], "overwritten"))
		}
	}
	want := len(bs)
	if mode == 0 {
		want = 1
		for _, k := range verif.Keys(bs) {
			if strings.HasSuffix(k, "!") {
				want++
			}
		}
	}
	verif.Assert("FuncAction.Exec-order-insensitive-size", len(exe.Bs) == want)
	verif.Reach("end")
}
