//go:build verif

package core

import (
	"context"
	"strings"

	"github.com/Comcast/sheens/match"
	"github.com/Comcast/sheens/zzverif/verif"
)

// refStep is the reference monitor for one step, written from README.md §"Processing" and
// doc/by-example.md: action first (its bindings replace the current ones), then the branches in listed
// order against the pending message (message branching) or the current bindings, first branch whose
// pattern matches and whose guard (if any) returns bindings wins; action failures routed by the
// specification's error settings.  It calls the real matcher for "matches" (C01-C03 own the matcher).
type refResult struct {
	err      bool // Step reports an error
	to       *State
	consumed bool
	calls    []string // stubs in the order they must have been called
}

func refStep(b *builtSpec, st *State, orig match.Bindings, pending interface{}) refResult {
	var r refResult
	s := b.spec
	n, have := s.Nodes[st.NodeName]
	if !have {
		r.err = true
		return r
	}
	haveAction := n.Action != nil
	if haveAction && n.Branches != nil && n.Branches.Type == "message" {
		r.err = true
		return r
	}
	bs := orig
	if haveAction {
		r.calls = append(r.calls, "act")
		abs, _, failed := b.act.outcome(orig.Copy())
		if failed {
			bs = orig.Copy()
			msg := "stub act failed"
			if b.act.kind == aFailPartial {
				msg = "stub act failed late"
			}
			bs["actionError"] = msg
			bs["error"] = msg
			if !s.ActionErrorBranches {
				if s.ActionErrorNode == "" {
					r.err = true
					return r
				}
				r.to = &State{NodeName: s.ActionErrorNode, Bs: bs}
				return r
			}
		} else {
			bs = abs
			if bs == nil {
				// no bindings returned: empty bindings, which still carry the permanent ones
				bs = match.NewBindings()
				for _, k := range verif.Keys(orig) {
					if strings.HasSuffix(k, "!") {
						bs[k] = orig[k]
					}
				}
			}
		}
	}
	taken := false
	if n.Branches != nil {
		var against interface{}
		if n.Branches.Type == "message" {
			if pending == nil {
				return r
			}
			against = pending
			r.consumed = true
		} else {
			against = map[string]interface{}(bs)
		}
		for i, br := range n.Branches.Branches {
			var cands []match.Bindings
			if br.Pattern != nil {
				var err error
				cands, err = match.Match(br.Pattern, against, bs)
				if err != nil {
					r.err = true
					return r
				}
			} else {
				cands = []match.Bindings{bs}
			}
			var next match.Bindings
			g := b.guards[i]
			if g == nil {
				switch len(cands) {
				case 0:
				case 1:
					next = cands[0]
				default:
					r.err = true
					return r
				}
			} else {
				for _, c := range cands {
					r.calls = append(r.calls, g.name)
					gbs, _, failed := g.outcome(c)
					if failed {
						r.err = true
						return r
					}
					if gbs != nil {
						next = gbs
						break
					}
				}
			}
			if next == nil {
				continue
			}
			// "@var" targets: the binding of var, if it is a string, names the target
			target := br.Target
			if b.tkinds[i] == 1 {
				if x, have := next[b.tvars[i]]; have {
					if str, is := x.(string); is {
						target = str
					}
				}
			}
			r.to = &State{NodeName: target, Bs: next}
			taken = true
			break
		}
	}
	if !taken && haveAction {
		ebs := bs.Copy()
		ebs["error"] = "Action node followed no branch"
		ebs["lastNode"] = st.NodeName
		ebs["lastBindings"] = orig
		r.to = &State{NodeName: "error", Bs: ebs}
	}
	return r
}

// c04Opts: the step rule is explored in focused slices (a blind product of every dimension is out of
// reach for path-based exploration); each slice varies a few dimensions fully and fixes the others:
//
//	0 action routing: every action behaviour x error settings x branching type, pattern-less branch
//	1 branch order and guards: two (thorough: three) branches over the pattern vocabulary, guards
//	2 branch-target variables: symbolic target names and bindings
//	3 matching: one branch with an arbitrary (lazy, symbolic strings) pattern against message/bindings
//	4 combination: action + guarded vocabulary branch + error settings
//	5 branch-target variables bound by the branch itself: vocabulary pattern and/or guard, "@?x" / "@k" targets
//	6 several candidates: array patterns that match in as many ways as the message's array has elements
//	  (symbolic strings), guards that accept all, none, or selectively (by the value bound to ?x), "@?x" targets:
//	  the guard sees the candidates one by one and the first one it accepts decides; without a guard several
//	  candidates are an error
func c04Opts() (o specOpts, msg verif.Opts, bsWidth int) {
	msg = verif.Opts{Depth: 1, Width: 1, Finite: true, NoVar: true, NoVarKeys: true, Pool: poolKeys, ValPool: poolValues}
	bsWidth = 1
	thorough := verif.Tier() > 0
	slice := verif.Choose("slice", 7)
	verif.Note("slice-" + string(rune('0'+slice)))
	switch slice {
	case 0:
		o = specOpts{actionMode: 2, branches: 1, patMode: 0, fixedTarget: true, actKinds: kindsAction, pooled: true}
		// without patterns only the presence of a pending message matters
		msg = verif.Opts{Depth: 0, Leaf: verif.TNil | verif.TStr, ValPool: []string{"n1"}, NoVar: true}
		if thorough {
			bsWidth = 2
		}
	case 1:
		o = specOpts{actionMode: 0, noNilBranches: true, branches: 2, patMode: 1, withGuards: true, grdKinds: kindsGuard, fixedTarget: true, fixedErr: true, pooled: true, small: true}
		msg = verif.Opts{Depth: 1, Width: 2, Finite: true, NoVar: true, NoVarKeys: true, Pool: poolKeys, ValPool: []string{"n1"},
			Tags: verif.TMap | verif.TNil | verif.TStr, Leaf: verif.TStr | verif.TF64}
		if thorough {
			// (three guarded vocabulary branches did not finish in 15 minutes: wider messages instead)
			msg.Width = 2
			msg.ValPool = []string{"n1", "zz"}
		}
	case 2:
		o = specOpts{actionMode: 0, noNilBranches: true, noMessage: true, branches: 1, patMode: 0, fixedErr: true, pooled: false}
		msg = verif.Opts{Depth: 0, Finite: true, NoVar: true}
		if thorough {
			bsWidth = 2
		}
	case 3:
		o = specOpts{actionMode: 0, noNilBranches: true, branches: 1, patMode: 2, patDepth: 1, patWidth: 1, fixedTarget: true, fixedErr: true, pooled: false}
		msg = verif.Opts{Depth: 1, Width: 1, Finite: true, NoVar: true, NoVarKeys: true}
		if thorough {
			o.patWidth = 2
			msg.Width = 2
		}
	case 5:
		o = specOpts{actionMode: 0, noNilBranches: true, branches: 1, patMode: 1, withGuards: true, grdKinds: []int{aIdent, aSet, aNilBs}, fixedErr: true, pooled: true, small: true}
		msg = verif.Opts{Depth: 1, Width: 1, Finite: true, NoVar: true, NoVarKeys: true, Pool: []string{"a"}, ValPool: []string{"n1", "zz"},
			Tags: verif.TMap | verif.TStr, Leaf: verif.TStr | verif.TF64}
	case 6:
		o = specOpts{actionMode: 0, noNilBranches: true, branches: 1, patMode: 1, multi: true, withGuards: true,
			grdKinds: []int{aIdent, aAcceptIf, aNilBs, aSet, aFail}, fixedErr: true, pooled: true, small: true}
		msg = verif.Opts{Depth: 0, Leaf: verif.TNil, NoVar: true} // replaced by c04MultiMessage
	default:
		o = specOpts{actionMode: 1, noNilBranches: true, noMessage: true, branches: 1, patMode: 1, withGuards: true,
			actKinds: []int{aSet, aFail, aNilBs}, grdKinds: []int{aIdent, aNilBs, aFail}, fixedTarget: true, pooled: true}
		if thorough {
			o.branches = 2
		}
	}
	return o, msg, bsWidth
}

// VerifC04Step: Spec.Step against the reference monitor.
func VerifC04Step() {
	verif.MapOrderInsertion(true) // order (in)dependence of the matcher is C03's subject
	o, msgOpts, bsWidth := c04Opts()
	b := buildSpec(o)
	bo := bindingsOpts(o.pooled, bsWidth)
	if o.small {
		bo = smallBindingsOpts()
	}
	st := &State{NodeName: "n0", Bs: match.Bindings(verif.AnyMap("bs", bo))}
	if verif.Choose("unknownNode", 2) == 1 {
		st.NodeName = "nowhere"
	}
	pending := verif.AnyJSON("pending", msgOpts)
	if o.multi {
		pending = c04MultiMessage()
		if b.spec.Nodes["n0"].Branches != nil && b.spec.Nodes["n0"].Branches.Type != "message" {
			// bindings branching: the array sits in the bindings
			st.Bs["a"] = c04MultiArray()
		}
	}
	orig := st.Bs.Copy()

	var stride *Stride
	var err error
	panicked := true
	func() {
		defer func() { recover() }()
		stride, err = b.spec.Step(context.Background(), st, pending, nil, nil)
		panicked = false
	}()
	verif.Assume(!panicked) // crashes are C07's subject
	got := append([]stubCall(nil), b.log.calls...)
	b.log.calls = nil

	want := refStep(b, st, orig, pending)

	verif.Assert("error-iff-documented", (err != nil) == want.err)
	if want.err {
		if stride != nil {
			// an error while evaluating the branches does not hand the message back: message branching has
			// consumed it (Walk relies on this to move on to the next message)
			verif.Assert("consumed-iff-message-branching-also-on-error", (stride.Consumed != nil) == want.consumed)
		}
		verif.Reach("error")
		return
	}
	verif.Assert("stride-returned", stride != nil)
	// action first, once, with the state's bindings; guards in candidate order
	verif.Assert("stub-call-count", len(got) == len(want.calls))
	for i := range got {
		verif.Assert("stub-call-order", got[i].name == want.calls[i])
	}
	if len(got) > 0 && got[0].name == "act" {
		verif.Assert("action-sees-state-bindings", verif.Or(verif.JSONEqual(map[string]interface{}(got[0].in), map[string]interface{}(orig)),
			b.act.kind == aFail || b.act.kind == aFailPartial))
	}
	verif.Assert("consumed-iff-message-branching", (stride.Consumed != nil) == want.consumed)
	if want.consumed {
		verif.Assert("consumed-is-the-pending-message", verif.Or(verif.SameObject(stride.Consumed, pending), verif.JSONEqual(stride.Consumed, pending)))
	}
	verif.Assert("transition-iff-documented", (stride.To != nil) == (want.to != nil))
	if want.to != nil {
		verif.Reach("transition")
		verif.Assert("target-node", stride.To.NodeName == want.to.NodeName)
		verif.Assert("target-bindings", verif.JSONEqual(map[string]interface{}(stride.To.Bs), map[string]interface{}(want.to.Bs)))
	} else {
		verif.Reach("no-transition")
	}
}

// c04MultiArray: an array of up to three symbolic strings (both tiers: four did not finish in 12 minutes
// in the thorough tier, whose other slices are wider).
func c04MultiArray() []interface{} {
	max := 3
	n := verif.Choose("multi.len", max+1)
	arr := make([]interface{}, 0, n)
	for i := 0; i < n; i++ {
		arr = append(arr, verif.AnyString("multi.elem"))
	}
	return arr
}

// c04MultiMessage: nothing pending, the array itself, or the array under "a".
func c04MultiMessage() interface{} {
	switch verif.Choose("multi.shape", 3) {
	case 0:
		return nil
	case 1:
		return c04MultiArray()
	}
	return map[string]interface{}{"a": c04MultiArray()}
}
