//go:build verif

package core

var verifHarnesses = map[string]func(){
	"VerifC18Exec":         VerifC18Exec,
	"VerifC18Twice":        VerifC18Twice,
	"VerifC18Step":         VerifC18Step,
	"VerifCoreOrderLemmas": VerifCoreOrderLemmas,
	"VerifC04Step":         VerifC04Step,
	"VerifC06Walk":         VerifC06Walk,
	"VerifC06Step":         VerifC06Step,
	"VerifC07Walk":         VerifC07Walk,
	"VerifC05Walk":         VerifC05Walk,
	"VerifC12Concurrent":   VerifC12Concurrent,
	"VerifC12Walk":         VerifC12Walk,
	"VerifC13Syntax":       VerifC13Syntax,
	"VerifC13Idempotent":   VerifC13Idempotent,
	"VerifC13Reject":       VerifC13Reject,
	"VerifC13GoValues":     VerifC13GoValues,
	"VerifC13Reload":       VerifC13Reload,
	"VerifC13Sources":      VerifC13Sources,
	"VerifC12Race":         VerifC12Race,
	"VerifC12Updatable":    VerifC12Updatable,
	"VerifC05Errors":       VerifC05Errors,
	"VerifC05SplitErrors":  VerifC05SplitErrors,
	"VerifC05Split":        VerifC05Split,
	"VerifC07Limits":       VerifC07Limits,
	"VerifC07Step":         VerifC07Step,
	"VerifC07Compile":      VerifC07Compile,
}
