//go:build verif

package core

var verifHarnesses = map[string]func(){
	"VerifC18Exec": VerifC18Exec,
}
