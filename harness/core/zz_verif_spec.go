//go:build verif

package core

import (
	"context"
	"errors"
	"strings"

	"github.com/Comcast/sheens/match"
	"github.com/Comcast/sheens/zzverif/verif"
)

// ---- the action language: deterministic native stubs whose behaviour is a symbolic choice ----

const (
	aIdent       = iota // returns the bindings it was given (same map)
	aSet                // returns a copy with key := value
	aDel                // returns a copy without key
	aReplace            // returns a wholly different bindings map
	aFail               // fails without an execution
	aFailPartial        // fails but also returns an execution
	aNilBs              // returns an execution without bindings (a guard's rejection)
	aNilExe             // returns neither an execution nor an error
	aFailInPlace        // deletes a binding from the map it was given, then fails, returning that map
	aBareExe            // returns an Execution built by hand (&Execution{Bs: ...}: no Events inside)
	aAcceptIf           // a selective guard: returns the bindings it was given iff they bind ?x to val, otherwise none
	aKinds
)

// stubCall records one invocation of a stub.
type stubCall struct {
	name string
	in   match.Bindings
}

type stubLog struct {
	calls []stubCall
}

type stubSpec struct {
	name  string
	kind  int
	key   string
	val   interface{}
	repl  match.Bindings
	emits int
}

// Name pools used when a harness keeps strings concrete (quick tiers): binding names include a variable, a
// plain name, the reserved diagnostic names and a permanent name; string values include node names.
var (
	poolNames  = []string{"?x", "k", "error", "p!"}
	poolValues = []string{"n1", "v"}
	poolKeys   = []string{"a", "b"}
)

// anyName: a symbolic string, or (pooled) one of the pool's members.
func anyName(name string, pool []string) string {
	if pool == nil {
		return verif.AnyString(name)
	}
	return pool[verif.Choose(name, len(pool))]
}

func bindingsOpts(pooled bool, width int) verif.Opts {
	o := verif.Opts{Depth: 1, Width: width, Finite: true, NoVar: true}
	if pooled {
		o.Pool = poolNames
		o.ValPool = poolValues
	}
	return o
}

// smallBindingsOpts / smallMsgOpts: the smallest inputs that still exercise variables, permanent names,
// strings and numbers (used where the subject is purity or totality rather than the matching rule).
func smallBindingsOpts() verif.Opts {
	return verif.Opts{Depth: 1, Width: 1, Finite: true, NoVar: true, Pool: []string{"?x", "p!", "?<n"}, ValPool: []string{"n1"}, Leaf: verif.TStr | verif.TF64}
}

func smallMsgOpts() verif.Opts {
	return verif.Opts{Depth: 1, Width: 1, Finite: true, NoVar: true, NoVarKeys: true, Pool: []string{"a"}, ValPool: []string{"n1"},
		Tags: verif.TMap | verif.TStr | verif.TNil, Leaf: verif.TStr | verif.TF64}
}

// newStub draws a behaviour for the action/guard called name from the allowed kinds.
func newStub(name string, allowed []int, maxEmits int, pooled bool) *stubSpec {
	return newStubSized(name, allowed, maxEmits, pooled, false)
}

func newStubSized(name string, allowed []int, maxEmits int, pooled bool, small bool) *stubSpec {
	s := &stubSpec{name: name}
	s.kind = allowed[verif.Choose(name+".kind", len(allowed))]
	var names []string
	if pooled {
		names = poolNames
	}
	if small {
		names = []string{"?x", "p!"}
		switch s.kind {
		case aSet:
			s.key = anyName(name+".key", names)
			s.val = "v"
		case aDel, aFailInPlace:
			s.key = anyName(name+".key", names)
		case aReplace:
			s.repl = match.Bindings{"r": 1.0}
		case aAcceptIf:
			s.val = verif.AnyString(name + ".accepts")
		}
		if maxEmits > 0 {
			s.emits = verif.Choose(name+".emits", maxEmits+1)
		}
		return s
	}
	switch s.kind {
	case aSet:
		s.key = anyName(name+".key", names)
		vo := verif.Opts{Depth: 0, Finite: true, NoVar: true}
		if pooled {
			vo.ValPool = poolValues
		}
		s.val = verif.AnyJSON(name+".val", vo)
	case aDel, aFailInPlace:
		s.key = anyName(name+".key", names)
	case aReplace:
		s.repl = match.Bindings(verif.AnyMap(name+".repl", bindingsOpts(pooled, 1)))
	}
	if maxEmits > 0 {
		s.emits = verif.Choose(name+".emits", maxEmits+1)
	}
	return s
}

// action turns the stub into a core.Action that logs its calls.
func (s *stubSpec) action(log *stubLog) Action {
	return &FuncAction{F: func(ctx context.Context, in match.Bindings, props StepProps) (*Execution, error) {
		if log != nil {
			log.calls = append(log.calls, stubCall{name: s.name, in: in.Copy()})
		}
		var exe *Execution
		var err error
		switch s.kind {
		case aIdent:
			exe = NewExecution(in)
		case aSet:
			out := in.Copy()
			out[s.key] = s.val
			exe = NewExecution(out)
		case aDel:
			out := in.Copy()
			delete(out, s.key)
			exe = NewExecution(out)
		case aReplace:
			exe = NewExecution(s.repl.Copy())
		case aFail:
			return nil, errors.New("stub " + s.name + " failed")
		case aFailPartial:
			exe = NewExecution(in.Copy())
			err = errors.New("stub " + s.name + " failed late")
		case aNilBs:
			exe = NewExecution(nil)
		case aNilExe:
			return nil, nil
		case aFailInPlace:
			delete(in, s.key)
			exe = NewExecution(in)
			err = errors.New("stub " + s.name + " failed")
		case aAcceptIf:
			if x, have := in["?x"]; have && x == s.val {
				exe = NewExecution(in)
			} else {
				exe = NewExecution(nil)
			}
		case aBareExe:
			// an action written without the constructor: nothing to record events in, and nothing emitted
			return &Execution{Bs: in.Copy()}, nil
		}
		for i := 0; i < s.emits; i++ {
			exe.AddEmitted(map[string]interface{}{"from": s.name, "n": float64(i)})
		}
		return exe, err
	}}
}

// outcome computes what the stub, wrapped by FuncAction.Exec, yields for `in` without running it (used by
// reference monitors): the stub's own result with the permanent ('!') bindings of `in` written back.
func (s *stubSpec) outcome(in match.Bindings) (bs match.Bindings, haveExe bool, failed bool) {
	bs, haveExe, failed = s.rawOutcome(in)
	if bs != nil {
		for _, k := range verif.Keys(in) {
			if strings.HasSuffix(k, "!") {
				bs[k] = in[k]
			}
		}
	}
	return bs, haveExe, failed
}

func (s *stubSpec) rawOutcome(in match.Bindings) (bs match.Bindings, haveExe bool, failed bool) {
	switch s.kind {
	case aIdent:
		return in.Copy(), true, false
	case aSet:
		out := in.Copy()
		out[s.key] = s.val
		return out, true, false
	case aDel:
		out := in.Copy()
		delete(out, s.key)
		return out, true, false
	case aReplace:
		return s.repl.Copy(), true, false
	case aFail:
		return nil, false, true
	case aFailPartial:
		return in.Copy(), true, true
	case aNilBs:
		return nil, true, false
	case aAcceptIf:
		if x, have := in["?x"]; have && x == s.val {
			return in.Copy(), true, false
		}
		return nil, true, false
	case aFailInPlace:
		out := in.Copy()
		delete(out, s.key)
		return out, true, true
	}
	return nil, false, false
}

var (
	kindsSucceeding = []int{aIdent, aSet, aDel, aReplace}
	kindsAction     = []int{aIdent, aSet, aDel, aReplace, aFail, aFailPartial, aNilBs}
	kindsGuard      = []int{aIdent, aSet, aNilBs, aFail}
	kindsAll        = []int{aIdent, aSet, aDel, aReplace, aFail, aFailPartial, aNilBs, aNilExe}
	kindsC07        = []int{aIdent, aSet, aDel, aReplace, aFail, aFailPartial, aNilBs, aNilExe, aBareExe}
	kindsC18        = []int{aIdent, aSet, aDel, aReplace, aFail, aFailPartial, aNilBs, aFailInPlace}
)

// ---- small compiled specs ----

type specOpts struct {
	actionMode    int  // 0 never, 1 maybe, 2 always
	noMessage     bool // branching type "message" not drawn
	noNilBranches bool
	patMode       int  // 0 no patterns, 1 vocabulary, 2 lazy JSON
	fixedTarget   bool // every target is "n1"
	targetVars    bool // targets are "@k" / "@x" / "n1"
	fixedErr      bool // ActionErrorBranches=false, ActionErrorNode=""
	branches      int  // max branches of the current node
	patDepth      int
	patWidth      int
	withGuards    bool
	multi         bool // patMode 1 offers only patterns that match in several ways: ["?x"] and {"a":["?x"]}
	withInvalid   bool // the vocabulary also offers a pattern the matcher rejects with an error
	noLog         bool // stubs do not record their calls
	small         bool // stub parameters from the smallest pools
	pooled        bool // strings (binding names, targets) drawn from small pools instead of symbolic
	actKinds      []int
	grdKinds      []int
	maxEmits      int
}

// noLog: stubs keep no call log (the spec is frozen and must not be written, not even by the harness).
var verifNoLog = false

type builtSpec struct {
	spec    *Spec
	log     *stubLog
	act     *stubSpec   // action of node "n0" (nil if none)
	guards  []*stubSpec // per branch of "n0" (nil entries if none)
	targets []string
	tkinds  []int    // per branch: 0 literal "n1", 1 "@var", 2 other literal
	tvars   []string // per branch: the binding a "@var" target refers to ("" if the target is literal)
}

// buildSpec makes a compiled spec whose node "n0" is symbolic: optional action, branching type, up to
// o.branches branches each with a lazy pattern, optional guard stub and a symbolic target. The node map
// also has "n1" (terminal), and the "error" node the compiler would add.
func buildSpec(o specOpts) *builtSpec {
	b := &builtSpec{}
	if !o.noLog {
		b.log = &stubLog{}
	}
	n0 := &Node{}
	if o.actionMode == 2 || (o.actionMode == 1 && verif.Choose("hasAction", 2) == 1) {
		b.act = newStubSized("act", o.actKinds, o.maxEmits, o.pooled, o.small)
		n0.Action = b.act.action(b.log)
	}
	var btypes []int
	if !o.noNilBranches {
		btypes = append(btypes, 0)
	}
	if !o.noMessage {
		btypes = append(btypes, 1)
	}
	btypes = append(btypes, 2)
	switch btypes[verif.Choose("branching", len(btypes))] {
	case 0:
		n0.Branches = nil
	case 1:
		n0.Branches = &Branches{Type: "message"}
	default:
		n0.Branches = &Branches{Type: "bindings"} // also what Compile makes of ""
	}
	if n0.Branches != nil {
		nb := verif.Choose("nbranches", o.branches+1)
		for i := 0; i < nb; i++ {
			name := "br" + string(rune('0'+i))
			br := &Branch{}
			if o.patMode == 0 {
				// no pattern: the branch always applies
			} else if o.patMode == 1 {
				// small vocabulary over the two-letter key alphabet {a,b} and the variable ?x
				nv := 6
				if o.withInvalid {
					nv = 7
				}
				if o.multi {
					// an array pattern with a variable has one candidate per element of the message's array
					if verif.Choose(name+".vocab", 2) == 0 {
						br.Pattern = []interface{}{"?x"}
					} else {
						br.Pattern = map[string]interface{}{"a": []interface{}{"?x"}}
					}
				} else {
					switch verif.Choose(name+".vocab", nv) {
					case 0:
					case 1:
						br.Pattern = "?x"
					case 2:
						br.Pattern = map[string]interface{}{"a": "?x"}
					case 3:
						br.Pattern = map[string]interface{}{"a": verif.AnyJSON(name+".const", verif.Opts{Depth: 0, Finite: true, NoVar: true})}
					case 4:
						br.Pattern = map[string]interface{}{"b": "?y", "a": "?x"}
					case 5:
						br.Pattern = map[string]interface{}{"a": "?<n"} // inequality against a bound number
					default:
						br.Pattern = map[string]interface{}{"?v": 1.0, "a": 2.0} // property variable with other keys: an error
					}
				}
			} else if verif.Choose(name+".hasPattern", 2) == 1 {
				po := verif.Opts{Depth: o.patDepth, Width: o.patWidth, Nodes: 3, Finite: true}
				if o.pooled {
					po.Pool = []string{"a", "?x", "k"}
					po.ValPool = []string{"?x", "n1", "??o"}
				}
				br.Pattern = verif.AnyJSON(name+".pattern", po)
			}
			var g *stubSpec
			if o.withGuards && verif.Choose(name+".hasGuard", 2) == 1 {
				g = newStubSized(name+".guard", o.grdKinds, o.maxEmits, o.pooled, o.small)
				br.Guard = g.action(b.log)
			}
			b.guards = append(b.guards, g)
			tvar := ""
			tkind := 0
			if !o.fixedTarget {
				tkind = verif.Choose(name+".target", 3)
			}
			b.tkinds = append(b.tkinds, tkind)
			switch tkind {
			case 0:
				br.Target = "n1"
			case 1:
				if o.pooled && o.patMode == 1 {
					// the variable may be one the branch's own pattern ("?x") or guard ("k") binds
					tvar = anyName(name+".targetvar", []string{"k", "x", "?x"})
				} else if o.pooled {
					tvar = anyName(name+".targetvar", []string{"k", "x"})
				} else {
					tvar = verif.AnyString(name + ".targetvar")
				}
				br.Target = "@" + tvar
			default:
				if o.pooled {
					br.Target = "zz"
				} else {
					br.Target = verif.AnyString(name + ".targetname")
					verif.Assume(!strings.HasPrefix(br.Target, "@"))
				}
			}
			b.tvars = append(b.tvars, tvar)
			b.targets = append(b.targets, br.Target)
			n0.Branches.Branches = append(n0.Branches.Branches, br)
		}
	}
	b.spec = &Spec{
		Name:      "verif",
		Nodes:     map[string]*Node{"n0": n0, "n1": {}, "error": {}},
		ErrorNode: "error",
		compiled:  true,
	}
	if !o.fixedErr {
		b.spec.ActionErrorBranches = verif.Choose("actionErrorBranches", 2) == 1
		if verif.Choose("actionErrorNode", 2) == 1 {
			b.spec.ActionErrorNode = "n1"
		}
	}
	return b
}
