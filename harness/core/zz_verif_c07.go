//go:build verif

package core

import (
	"context"
	"errors"
	"strings"

	"github.com/Comcast/sheens/match"
	"github.com/Comcast/sheens/zzverif/verif"
)

func c07Opts() (o specOpts, msg verif.Opts) {
	msg = smallMsgOpts()
	switch verif.Choose("slice", 3) {
	case 2:
		// branch-target variables bound to values of any type
		o = specOpts{actionMode: 0, noNilBranches: true, branches: 1, patMode: 0, fixedErr: true, pooled: true, small: true, targetVars: true}
	case 0:
		// every action outcome (including "no execution, no error") x error settings x branching
		o = specOpts{actionMode: 2, branches: 1, patMode: 0, fixedTarget: true, actKinds: kindsC07, pooled: true, small: true}
	default:
		// guards with every outcome, invalid and valid patterns, optional action
		o = specOpts{actionMode: 1, noNilBranches: true, branches: 1, patMode: 1, withGuards: true, withInvalid: true, fixedErr: true,
			actKinds: []int{aSet, aFail, aNilExe}, grdKinds: kindsC07, pooled: true, small: true}
		// (thorough: two branches with free error settings did not finish in 15 minutes, free error settings
		// alone not in 10: the thorough tier adds a message, a step and - for Compile - a node and a branch)
	}
	return o, msg
}

func stubFailed(b *builtSpec) bool {
	for _, c := range b.log.calls {
		var s *stubSpec
		if c.name == "act" {
			s = b.act
		} else {
			for _, g := range b.guards {
				if g != nil && g.name == c.name {
					s = g
				}
			}
		}
		if s != nil && (s.kind == aFail || s.kind == aFailPartial) {
			return true
		}
	}
	return false
}

// c07OnlyStubFailures: the walk met no failure other than a failing stub (no unknown node, no branch that
// matched several ways, no action node without a matching branch).
func c07OnlyStubFailures(b *builtSpec, w *Walked) bool {
	for _, s := range w.Strides {
		if s.From != nil {
			if _, known := b.spec.Nodes[s.From.NodeName]; !known {
				return false
			}
		}
		if s.To != nil && s.To.NodeName == "error" {
			if e, is := s.To.Bs["error"].(string); is && !strings.HasPrefix(e, "stub ") && e != "old failure" {
				return false
			}
		}
	}
	return true
}

// VerifC07Walk: Walk/Step are total: no panic escapes, failures surface as an error, an error state
// (error / lastNode / lastBindings) or the designated action-error node (actionError).
func VerifC07Walk() {
	verif.MapOrderInsertion(true)
	o, msgOpts := c07Opts()
	b := buildSpec(o)
	st := &State{NodeName: "n0"}
	switch verif.Choose("bindings", 4) {
	case 0:
		st.Bs = nil // absent bindings
	case 1:
		st.Bs = match.Bindings(verif.AnyMap("bs", c07Bindings(o)))
	case 3:
		// a machine that failed before and was sent back to work by its error node, keeping its bindings
		st.Bs = match.Bindings{"error": "old failure", "lastNode": "n9", "lastBindings": map[string]interface{}{"z": 1.0}, "k": "v"}
	default:
		st.Bs = match.Bindings{"p!": 1.0, "k": "v"}
	}
	if _, failedBefore := st.Bs["lastNode"]; !failedBefore {
		switch verif.Choose("node", 3) {
		case 1:
			st.NodeName = "nowhere"
		case 2:
			st.NodeName = "error"
		}
	}
	var msgs []interface{}
	nm := verif.Choose("nmsgs", 2+verif.Tier())
	for i := 0; i < nm; i++ {
		msgs = append(msgs, verif.AnyJSON("msg", msgOpts))
	}
	// no control settings and no props, or both given
	var ctl *Control
	var props StepProps
	if env := verif.Choose("control", 3); env > 0 {
		ctl = &Control{Limit: env}
		props = StepProps{"p": 1.0}
	}
	startNode := st.NodeName

	var w *Walked
	var err error
	panicked := true
	func() {
		defer func() { recover() }()
		w, err = b.spec.Walk(context.Background(), st, msgs, ctl, props)
		panicked = false
	}()
	if verif.Known("C07-nilcontrol") {
		verif.Assume(ctl != nil)
	}
	verif.Assert("walk-does-not-panic", !panicked)
	verif.Assert("walk-returns-result-or-error", w != nil || err != nil)
	if w == nil {
		verif.Note("internal-error")
		return
	}
	if stubFailed(b) && startNode != "error" {
		verif.Reach("failure")
		surfaced := err != nil || w.Error != nil
		for _, s := range w.Strides {
			if s.To == nil {
				continue
			}
			_, hasAE := s.To.Bs["actionError"]
			if b.spec.ActionErrorNode != "" && s.To.NodeName == b.spec.ActionErrorNode && hasAE {
				surfaced = true // designated action-error node, error text bound
			}
			if b.spec.ActionErrorBranches && hasAE {
				surfaced = true // error branches saw the error text
			}
			if s.To.NodeName == "error" {
				e, hasE := s.To.Bs["error"]
				_, isStr := e.(string)
				_, hasLN := s.To.Bs["lastNode"]
				_, hasLB := s.To.Bs["lastBindings"]
				if hasE && isStr && hasLN && hasLB {
					surfaced = true
				}
				if s.From != nil && s.From.NodeName != "error" {
					// the error state describes THIS failure: the node it occurred at and the bindings at that point
					verif.Assert("error-state-records-the-failing-node", verif.JSONEqual(s.To.Bs["lastNode"], s.From.NodeName))
					was := map[string]interface{}(s.From.Bs)
					if was == nil {
						was = map[string]interface{}{}
					}
					verif.Assert("error-state-records-the-bindings-at-that-point", verif.JSONEqual(s.To.Bs["lastBindings"], was))
					if txt, is := e.(string); is {
						// every failure of this harness comes from a stub, whose texts start with "stub "
						verif.Assert("error-state-carries-this-failure's-text", strings.HasPrefix(txt, "stub ") || !c07OnlyStubFailures(b, w))
					}
				}
			}
		}
		verif.Assert("failure-surfaced", surfaced)
	}
	verif.Reach("end")
}

// VerifC07Limits: control settings that allow no step at all (a limit of zero, or a nonsensical negative
// one): Walk returns normally, takes no step and hands every message back.
func VerifC07Limits() {
	verif.MapOrderInsertion(true)
	o := specOpts{actionMode: 1, branches: 1, patMode: 0, fixedTarget: true, fixedErr: true, actKinds: []int{aIdent, aFail}, pooled: true, small: true}
	b := buildSpec(o)
	st := &State{NodeName: "n0", Bs: match.Bindings{"k": "v"}}
	var msgs []interface{}
	nm := verif.Choose("nmsgs", 3)
	for i := 0; i < nm; i++ {
		msgs = append(msgs, map[string]interface{}{"a": float64(i)})
	}
	limit := []int{0, -1, -1000000}[verif.Choose("limit", 3)]
	var w *Walked
	var err error
	panicked := true
	func() {
		defer func() { recover() }()
		w, err = b.spec.Walk(context.Background(), st, msgs, &Control{Limit: limit}, nil)
		panicked = false
	}()
	verif.Assert("walk-does-not-panic", !panicked)
	verif.Assert("walk-returns-result-or-error", w != nil || err != nil)
	if w != nil {
		verif.Assert("no-step-without-allowance", len(w.Strides) == 0)
		verif.Assert("messages-handed-back", len(w.Remaining) == len(msgs))
	}
	verif.Reach("limits-done")
}

// VerifC07Step: one Step is total for the same inputs, including without control settings.
func VerifC07Step() {
	verif.MapOrderInsertion(true)
	o, msgOpts := c07Opts()
	b := buildSpec(o)
	st := &State{NodeName: "n0"}
	switch verif.Choose("bindings", 3) {
	case 0:
		st.Bs = nil
	case 1:
		st.Bs = match.Bindings(verif.AnyMap("bs", c07Bindings(o)))
	default:
		st.Bs = match.Bindings{"p!": 1.0, "k": "v"}
	}
	if verif.Choose("node", 2) == 1 {
		st.NodeName = "nowhere"
	}
	pending := verif.AnyJSON("msg", msgOpts)
	panicked := true
	var stride *Stride
	var err error
	func() {
		defer func() { recover() }()
		stride, err = b.spec.Step(context.Background(), st, pending, nil, nil)
		panicked = false
	}()
	verif.Assert("step-does-not-panic", !panicked)
	verif.Assert("step-returns-stride-or-error", stride != nil || err != nil)
	verif.Reach("end")
}

// ---- Compile totality ----

type verifInterp struct{ failCompile bool }

func (i *verifInterp) Compile(ctx context.Context, code interface{}) (interface{}, error) {
	if i.failCompile {
		return nil, errors.New("compile error")
	}
	return code, nil
}

func (i *verifInterp) Exec(ctx context.Context, bs match.Bindings, props StepProps, code interface{}, compiled interface{}) (*Execution, error) {
	return NewExecution(bs), nil
}

var verifInterpName = ""

func anySource(name string) *ActionSource {
	if verif.Choose(name, 2) == 0 {
		return nil
	}
	return &ActionSource{Interpreter: verifInterpName, Source: "return _.bindings;"}
}

// anyDecodedSpec: any Spec value a JSON/YAML decoder can produce within the bounds: nil nodes, nil
// branching, nil branch entries, unknown branching types, interpreters and pattern syntaxes, patterns
// that are structures, JSON texts (valid or not) or unserialisable numbers; fields tagged json:"-" zero.
func anyDecodedSpec() *Spec {
	s := &Spec{}
	s.PatternSyntax = []string{"", "json", "none", "xx"}[verif.Choose("patternSyntax", 4)]
	verifInterpName = []string{"", "stub", "nope"}[verif.Choose("interpreter", 3)]
	if verif.Choose("slice", 2) == 0 {
		// slice A: the specification-level fields vary, one plain node
		s.ErrorNode = []string{"", "n0"}[verif.Choose("errorNode", 2)]
		s.NoAutoErrorNode = verif.Choose("noAutoErrorNode", 2) == 1
		s.BootSource = anySource("boot")
		s.ToobSource = anySource("toob")
		if verif.Choose("nodes", 3) == 0 {
			return s // nodes absent
		}
		s.Nodes = map[string]*Node{"n0": {ActionSource: anySource("n0.action"),
			Branches: &Branches{Branches: []*Branch{{Pattern: map[string]interface{}{"a": "?x"}, Target: "n0"}}}}}
		if verif.Choose("nodes", 3) == 1 {
			s.Nodes["n1"] = nil
		}
		return s
	}
	// slice B: the node structure varies
	s.Nodes = map[string]*Node{}
	nn := 1 + verif.Choose("nnodes", 1) // (a second user node in the thorough tier did not finish in 10 minutes)
	for i := 0; i < nn; i++ {
		name := "n" + string(rune('0'+i))
		if verif.Choose(name+".nil", 3) == 0 {
			s.Nodes[name] = nil
			continue
		}
		n := &Node{ActionSource: anySource(name + ".action")}
		if verif.Choose(name+".branching", 2) == 1 {
			n.Branches = &Branches{Type: []string{"", "message", "weird"}[verif.Choose(name+".type", 3)]}
			nb := verif.Choose(name+".nbranches", 2) // (a third branch in the thorough tier did not finish in 10 minutes)
			for j := 0; j < nb; j++ {
				bn := name + ".br" + string(rune('0'+j))
				if verif.Choose(bn+".nil", 3) == 0 {
					n.Branches.Branches = append(n.Branches.Branches, nil)
					continue
				}
				br := &Branch{Target: []string{"n1", "missing"}[verif.Choose(bn+".target", 2)], GuardSource: anySource(bn + ".guard")}
				switch verif.Choose(bn+".pattern", 7) {
				case 1:
					br.Pattern = "?x"
				case 2:
					br.Pattern = map[string]interface{}{"a": "?x"}
				case 3:
					br.Pattern = `{"a":"?x"}`
				case 4:
					br.Pattern = `"?x"`
				case 5:
					br.Pattern = `{"a":`
				case 6:
					br.Pattern = verif.AnyFloat(bn + ".num") // possibly NaN: not serialisable
				}
				n.Branches.Branches = append(n.Branches.Branches, br)
			}
		}
		s.Nodes[name] = n
	}
	return s
}

// VerifC07Compile: compiling any decoded document yields a compiled specification or an error, never a
// crash; a compiled specification never makes Step fail for lack of compilation.
func VerifC07Compile() {
	if verif.Tier() == 0 {
		// quick: a single user node; the only other entry of the node map is the (empty) automatic error
		// node, so node order is left to the thorough tier
		verif.MapOrderInsertion(true)
	}
	s := anyDecodedSpec()
	interps := InterpretersMap{"stub": &verifInterp{failCompile: verif.Choose("compileFails", 2) == 1}, "": &verifInterp{}}
	var err error
	panicked := true
	func() {
		defer func() { recover() }()
		err = s.Compile(context.Background(), interps, verif.Choose("force", 2) == 1)
		panicked = false
	}()
	verif.Assert("compile-does-not-panic", !panicked)
	if err != nil {
		verif.Reach("rejected")
		return
	}
	verif.Reach("compiled")
	verif.MapOrderInsertion(true) // every node order was explored for the first compilation
	// a second compilation is fine too
	panicked = true
	func() {
		defer func() { recover() }()
		err = s.Compile(context.Background(), interps, false)
		panicked = false
	}()
	verif.Assert("recompile-does-not-panic", !panicked)
	// and the compiled spec can be stepped from each of its nodes without crashing
	for _, name := range []string{"n0", "n1", "error"} {
		st := &State{NodeName: name, Bs: match.Bindings{"x": "n1"}}
		panicked = true
		var serr error
		func() {
			defer func() { recover() }()
			_, serr = s.Step(context.Background(), st, map[string]interface{}{"a": 1.0}, nil, nil)
			panicked = false
		}()
		verif.Assert("compiled-spec-steps-without-panic", !panicked)
		if serr != nil {
			_, unc := serr.(*UncompiledAction)
			_, notc := serr.(*SpecNotCompiled)
			verif.Assert("no-compile-time-problem-at-run-time", !unc && !notc)
		}
	}
}

func c07Bindings(o specOpts) verif.Opts {
	if o.targetVars {
		return verif.Opts{Depth: 1, Width: 1, Pool: []string{"k", "x"}, ValPool: []string{"n1"}, Finite: true, NoVar: true,
			Leaf: verif.TStr | verif.TF64 | verif.TNil | verif.TBool}
	}
	return smallBindingsOpts()
}
