//go:build verif

package core

import (
	"context"
	"sync"

	"github.com/Comcast/sheens/match"
	"github.com/Comcast/sheens/zzverif/verif"
)

func freezeShared(b *builtSpec) {
	verif.Freeze(b.spec, "spec")
	verif.FreezeGlobals("globals", "github.com/Comcast/sheens/core", "github.com/Comcast/sheens/match")
	// the exported package variables, also visible to the native replay
	verif.Freeze(&DefaultControl, "globals")
	verif.Freeze(&DefaultInterpreters, "globals")
	verif.Freeze(&DefaultBranchType, "globals")
	verif.Freeze(&DefaultErrorNodeName, "globals")
	verif.Freeze(&DefaultPatternParser, "globals")
	verif.Freeze(&Exp_PermanentBindings, "globals")
	verif.Freeze(&Exp_BranchTargetVariables, "globals")
	verif.Freeze(&TracesInitialCap, "globals")
	verif.Freeze(&EmittedMessagesInitialCap, "globals")
	verif.Freeze(&match.DefaultMatcher, "globals")
}

// VerifC12Walk: a walk (every action/guard outcome, error states, limits) performs no write to anything
// reachable from the shared compiled Spec nor to any package-level variable of core and match.  Hence any
// number of concurrent walks over distinct states share read-only data only: no data race, and each gets
// its sequential result.
func VerifC12Walk() {
	verif.MapOrderInsertion(true)
	o, msgOpts := c06Opts()
	b, st, msgs, ctl, props := c06Inputs(o, msgOpts)
	freezeShared(b)
	panicked := true
	func() {
		defer func() { recover() }()
		b.spec.Walk(context.Background(), st, msgs, ctl, props)
		panicked = false
	}()
	verif.Assume(!panicked)
	verif.AssertNoWrites("walk-writes-nothing-shared", "spec", "globals")
	verif.Reach("end")
}

// VerifC12Updatable: SetSpec is one atomic pointer store, Spec() one atomic pointer load of the same cell,
// and the cell is never accessed non-atomically; a reader therefore gets the old or the new version whole.
func VerifC12Updatable() {
	a := &Spec{Name: "A"}
	b := &Spec{Name: "B"}
	u := NewUpdatableSpec(a)
	n0 := verif.AtomicOps()
	got := u.Spec()
	n1 := verif.AtomicOps()
	verif.Assert("spec-returns-current", got == a)
	verif.Assert("spec-is-one-atomic-load", n0 < 0 || n1-n0 == 1)
	err := u.SetSpec(b)
	n2 := verif.AtomicOps()
	verif.Assert("setspec-succeeds", err == nil)
	verif.Assert("setspec-is-one-atomic-store", n0 < 0 || n2-n1 == 1)
	verif.Assert("spec-returns-new", u.Spec() == b)
	verif.Assert("old-version-untouched", a.Name == "A" && b.Name == "B")
	var sp Specter = u
	verif.Assert("specter-interface", sp.Spec() == b)
	verif.AssertNoWrites("pointer-cell-only-accessed-atomically", "atomic-mixed")
	verif.Reach("end")
}

// VerifC12Race is the NATIVE confirmation harness for C12 counterexamples (it is never executed
// symbolically): the inputs of a VerifC12Walk counterexample are rebuilt and the same walk is run from
// several goroutines at once over the one shared Spec, each with its own copy of the state; the check
// runs it under the race detector and treats a reported data race as the reproduction.
func VerifC12Race() {
	o, msgOpts := c06Opts()
	b, st, msgs, ctl, props := c06Inputs(o, msgOpts)
	done := make(chan bool)
	const n = 8
	for i := 0; i < n; i++ {
		own := st.Copy()
		go func() {
			defer func() { recover(); done <- true }()
			for j := 0; j < 20; j++ {
				b.spec.Walk(context.Background(), own.Copy(), msgs, ctl, props)
			}
		}()
	}
	for i := 0; i < n; i++ {
		<-done
	}
}

// VerifC12Concurrent: two machines walked at once over ONE compiled spec (every action / guard outcome of
// the C06 input space), each with its own state, messages and control: no two accesses of the engine to
// shared memory, one of them a write, are unordered (the executor's happens-before detector: what
// `go test -race` reports, here for every explored spec and input rather than one schedule of one test).
func VerifC12Concurrent() {
	verif.MapOrderInsertion(true)
	o, msgOpts := c06Opts()
	b, st, msgs, ctl, props := c06Inputs(o, msgOpts)
	var wg sync.WaitGroup
	wg.Add(2)
	for i := 0; i < 2; i++ {
		mine := st.Copy()
		if mine.Bs == nil && st.Bs != nil {
			mine.Bs = match.NewBindings()
		}
		go func() {
			defer wg.Done()
			defer func() { recover() }() // (crashes are C07's subject)
			b.spec.Walk(context.Background(), mine, msgs, ctl, props.Copy())
		}()
	}
	wg.Wait()
	for _, r := range verif.RaceReports() {
		verif.Note("race: " + r)
		verif.Assert("no-data-race", false)
	}
	verif.Reach("concurrent-done")
}
