//go:build verif

package core

import (
	"context"
	"encoding/json"

	"github.com/Comcast/sheens/match"
	"github.com/Comcast/sheens/zzverif/verif"
)

func c13Pattern() interface{} {
	d, w := 1, 1
	if verif.Tier() > 0 {
		d, w = 2, 2
	}
	return verif.AnyJSON("pattern", verif.Opts{Depth: d, Width: w, Nodes: 4, Finite: true})
}

func c13Spec(syntax string, pattern interface{}, second interface{}) *Spec {
	s := &Spec{
		Name:          "c13",
		PatternSyntax: syntax,
		Nodes: map[string]*Node{
			"start": {Branches: &Branches{Type: "message", Branches: []*Branch{{Pattern: pattern, Target: "other"}}}},
			"other": {Branches: &Branches{Branches: []*Branch{{Pattern: second, Target: "start"}}}},
		},
	}
	return s
}

// VerifC13Syntax: a pattern written inline and the same pattern written as JSON text under the "json"
// pattern syntax compile to the same thing: both compile or both fail, and the compiled patterns are equal.
func VerifC13Syntax() {
	verif.MapOrderInsertion(true)
	x := c13Pattern()
	text := verif.JSONText(x)
	inline := c13Spec("", x, map[string]interface{}{"k": "?v"})
	asText := c13Spec("json", text, `{"k":"?v"}`)
	ctx := context.Background()
	e1 := inline.Compile(ctx, nil, false)
	e2 := asText.Compile(ctx, nil, false)
	verif.Assert("both-compile-or-both-fail", (e1 == nil) == (e2 == nil))
	if e1 != nil || e2 != nil {
		verif.Note("rejected")
		return
	}
	verif.Reach("compiled")
	p1 := inline.Nodes["start"].Branches.Branches[0].Pattern
	p2 := asText.Nodes["start"].Branches.Branches[0].Pattern
	verif.Assert("same-compiled-pattern", verif.JSONEqual(p1, p2))
	q1 := inline.Nodes["other"].Branches.Branches[0].Pattern
	q2 := asText.Nodes["other"].Branches.Branches[0].Pattern
	verif.Assert("same-compiled-pattern-2", verif.JSONEqual(q1, q2))
	verif.Assert("same-branching-type", inline.Nodes["other"].Branches.Type == asText.Nodes["other"].Branches.Type)
	// and they behave the same on a message
	msg := verif.AnyJSON("msg", verif.Opts{Depth: 1, Width: 1, Finite: true, NoVar: true, NoVarKeys: true})
	st := &State{NodeName: "start", Bs: match.NewBindings()}
	w1, _ := inline.Walk(ctx, st, []interface{}{msg}, nil, nil)
	w2, _ := asText.Walk(ctx, st.Copy(), []interface{}{msg}, nil, nil)
	verif.Assert("walks-return", w1 != nil && w2 != nil)
	if w1 != nil && w2 != nil {
		t1, t2 := w1.To(), w2.To()
		verif.Assert("same-movement", (t1 == nil) == (t2 == nil))
		if t1 != nil && t2 != nil {
			verif.Assert("same-node", t1.NodeName == t2.NodeName)
			verif.Assert("same-bindings", verif.JSONEqual(map[string]interface{}(t1.Bs), map[string]interface{}(t2.Bs)))
		}
	}
}

// VerifC13Idempotent: compiling again changes nothing (with and without force, for both syntaxes).
func VerifC13Idempotent() {
	verif.MapOrderInsertion(true)
	x := c13Pattern()
	var s *Spec
	if verif.Choose("syntax", 2) == 0 {
		s = c13Spec("", x, map[string]interface{}{"k": "?v"})
	} else {
		s = c13Spec("json", verif.JSONText(x), `{"k":"?v"}`)
	}
	guarded := verif.Choose("guard", 2) == 1
	if guarded {
		s.Nodes["start"].Branches.Branches[0].GuardSource = &ActionSource{Interpreter: "stub", Source: "g"}
		s.Nodes["other"].ActionSource = &ActionSource{Interpreter: "stub", Source: "a"}
		s.Nodes["other"].Branches.Type = "bindings"
		// a guarded branch at the node that has an action
		s.Nodes["other"].Branches.Branches[0].GuardSource = &ActionSource{Interpreter: "stub", Source: "g2"}
	}
	interps := InterpretersMap{"stub": &verifInterp{}}
	ctx := context.Background()
	e1 := s.Compile(ctx, interps, verif.Choose("force1", 2) == 1)
	if e1 != nil {
		verif.Note("rejected")
		return
	}
	if guarded {
		// whatever the force flag: every source is compiled by a successful Compile
		verif.Assert("compile-compiles-guard", s.Nodes["start"].Branches.Branches[0].Guard != nil)
		verif.Assert("compile-compiles-guard-at-action-node", s.Nodes["other"].Branches.Branches[0].Guard != nil)
		verif.Assert("compile-compiles-action", s.Nodes["other"].Action != nil)
	}
	p1 := s.Nodes["start"].Branches.Branches[0].Pattern
	q1 := s.Nodes["other"].Branches.Branches[0].Pattern
	type1 := s.Nodes["other"].Branches.Type
	nodes1 := len(s.Nodes)
	e2 := s.Compile(ctx, interps, verif.Choose("force2", 2) == 1)
	verif.Assert("recompile-succeeds", e2 == nil)
	if e2 != nil {
		return
	}
	verif.Reach("recompiled")
	verif.Assert("recompile-keeps-pattern", verif.JSONEqual(p1, s.Nodes["start"].Branches.Branches[0].Pattern))
	verif.Assert("recompile-keeps-pattern-2", verif.JSONEqual(q1, s.Nodes["other"].Branches.Branches[0].Pattern))
	verif.Assert("recompile-keeps-branching-type", type1 == s.Nodes["other"].Branches.Type)
	verif.Assert("recompile-keeps-node-set", nodes1 == len(s.Nodes))
	verif.Assert("recompile-keeps-error-node", s.ErrorNode == "error")
	if guarded {
		verif.Assert("recompile-keeps-guard", s.Nodes["start"].Branches.Branches[0].Guard != nil)
		verif.Assert("recompile-keeps-action", s.Nodes["other"].Action != nil)
	}
}

// VerifC13Reject: unknown interpreters, pattern syntaxes and branching types are rejected by Compile.
func VerifC13Reject() {
	verif.MapOrderInsertion(true)
	s := c13Spec("", map[string]interface{}{"a": "?x"}, nil)
	bad := verif.Choose("what", 6)
	switch bad {
	case 0:
		s.PatternSyntax = "yamlish"
	case 1:
		s.Nodes["other"].Branches.Type = "messages"
	case 2:
		s.Nodes["start"].ActionSource = &ActionSource{Interpreter: "nope", Source: "x"}
		s.Nodes["start"].Branches.Type = "bindings"
	case 3:
		s.Nodes["other"].Branches.Branches[0].GuardSource = &ActionSource{Interpreter: "nope", Source: "x"}
		if verif.Choose("guardAtActionNode", 2) == 1 {
			s.Nodes["other"].ActionSource = &ActionSource{Interpreter: "stub", Source: "a"}
		}
	case 4:
		s.BootSource = &ActionSource{Interpreter: "nope", Source: "x"}
	default:
		s.ToobSource = &ActionSource{Interpreter: "nope", Source: "x"}
	}
	already := verif.Choose("compiledBefore", 2) == 1 && bad != 0
	interps := InterpretersMap{"stub": &verifInterp{}}
	ctx := context.Background()
	if already {
		// the defect is introduced into a spec that compiled fine before (e.g. a hot-reloaded document)
		good := c13Spec("", map[string]interface{}{"a": "?x"}, nil)
		verif.Assert("good-spec-compiles", good.Compile(ctx, interps, false) == nil)
	}
	err := s.Compile(ctx, interps, verif.Choose("force", 2) == 1)
	verif.Assert("unknown-setting-rejected-at-compile-time", err != nil)
	verif.Reach("end")
}

// ---- Go structures vs. what a JSON document of the same spec holds ----

// a pattern as a Go program writes it (Go-typed values), and as the JSON rendering of the same pattern reads
var c13GoPatterns = [][2]interface{}{
	{map[string]interface{}{"tags": []string{"a"}}, map[string]interface{}{"tags": []interface{}{"a"}}},
	{map[string]string{"a": "?x"}, map[string]interface{}{"a": "?x"}},
	{map[string]interface{}{"a": map[string]string{"k": "v"}}, map[string]interface{}{"a": map[string]interface{}{"k": "v"}}},
	{map[string]interface{}{"n": 3}, map[string]interface{}{"n": 3.0}},
	{[]string{"a", "?x"}, []interface{}{"a", "?x"}},
	{map[string]interface{}{"xs": []int{1, 2}}, map[string]interface{}{"xs": []interface{}{1.0, 2.0}}},
}

var c13GoMessages = []interface{}{
	map[string]interface{}{"tags": []interface{}{"a", "b"}},
	map[string]interface{}{"a": "v"},
	map[string]interface{}{"a": map[string]interface{}{"k": "v", "j": 1.0}},
	map[string]interface{}{"n": 3.0},
	[]interface{}{"a", "b"},
	map[string]interface{}{"xs": []interface{}{2.0, 1.0, 3.0}},
}

// VerifC13GoValues: the same specification given as Go structures (inline patterns holding Go-typed values:
// []string, map[string]string, int, []int) and as the JSON rendering of those patterns compiles to the same
// patterns and behaves the same, under either pattern syntax setting.
func VerifC13GoValues() {
	verif.MapOrderInsertion(true)
	i := verif.Choose("pattern", len(c13GoPatterns))
	syntax := []string{"", "json"}[verif.Choose("syntax", 2)]
	asGo := c13Spec(syntax, c13GoPatterns[i][0], nil)
	asJSON := c13Spec(syntax, c13GoPatterns[i][1], nil)
	ctx := context.Background()
	e1 := asGo.Compile(ctx, nil, false)
	e2 := asJSON.Compile(ctx, nil, false)
	verif.Assert("both-representations-compile", e1 == nil && e2 == nil)
	if e1 != nil || e2 != nil {
		return
	}
	p1 := asGo.Nodes["start"].Branches.Branches[0].Pattern
	p2 := asJSON.Nodes["start"].Branches.Branches[0].Pattern
	verif.Assert("same-compiled-pattern-from-go-values", verif.JSONEqual(p1, p2))
	msg := c13GoMessages[verif.Choose("message", len(c13GoMessages))]
	st := &State{NodeName: "start", Bs: match.NewBindings()}
	w1, _ := asGo.Walk(ctx, st, []interface{}{msg}, nil, nil)
	w2, _ := asJSON.Walk(ctx, st.Copy(), []interface{}{msg}, nil, nil)
	verif.Assert("walks-return", w1 != nil && w2 != nil)
	if w1 != nil && w2 != nil {
		t1, t2 := w1.To(), w2.To()
		verif.Assert("same-movement-from-go-values", (t1 == nil) == (t2 == nil))
		if t1 != nil && t2 != nil {
			verif.Assert("same-node-from-go-values", t1.NodeName == t2.NodeName)
			verif.Assert("same-bindings-from-go-values", verif.JSONEqual(map[string]interface{}(t1.Bs), map[string]interface{}(t2.Bs)))
		}
	}
	verif.Reach("go-values-done")
}

// ---- sources: what is compiled is decided by (interpreter, source), never by the source text alone ----

// c13Interp: an interpreter that marks what it compiled with its own name, and binds that name when run.
type c13Interp struct{ name string }

func (i *c13Interp) Compile(ctx context.Context, code interface{}) (interface{}, error) {
	return i.name, nil
}

func (i *c13Interp) Exec(ctx context.Context, bs match.Bindings, props StepProps, code interface{}, compiled interface{}) (*Execution, error) {
	by, _ := compiled.(string)
	nbs := bs.Copy()
	nbs["ranBy"] = i.name
	nbs["compiledBy"] = by
	return NewExecution(nbs), nil
}

// VerifC13Sources: several sources of one spec carry the SAME text under different interpreters (node
// actions, guards, in any order, one of the interpreters possibly unknown): an unknown interpreter is
// rejected at compile time whatever was compiled before it, and every action runs under the interpreter
// its source names.
func VerifC13Sources() {
	verif.MapOrderInsertion(true)
	names := []string{"one", "two", "nope"}
	first := names[verif.Choose("firstInterpreter", 2)]
	second := names[verif.Choose("secondInterpreter", 3)]
	const text = "same text"
	s := &Spec{Name: "c13s", Nodes: map[string]*Node{}}
	where := verif.Choose("where", 3)
	switch where {
	case 0: // two node actions
		s.Nodes["start"] = &Node{ActionSource: &ActionSource{Interpreter: first, Source: text},
			Branches: &Branches{Branches: []*Branch{{Target: "next"}}}}
		s.Nodes["next"] = &Node{ActionSource: &ActionSource{Interpreter: second, Source: text},
			Branches: &Branches{Branches: []*Branch{{Target: "stop"}}}}
	case 1: // two guards in one branch list (compiled in list order)
		s.Nodes["start"] = &Node{Branches: &Branches{Branches: []*Branch{
			{Pattern: map[string]interface{}{"never": "matches"}, GuardSource: &ActionSource{Interpreter: first, Source: text}, Target: "stop"},
			{GuardSource: &ActionSource{Interpreter: second, Source: text}, Target: "stop"}}}}
	default: // an action and the guard of its branch
		s.Nodes["start"] = &Node{ActionSource: &ActionSource{Interpreter: first, Source: text},
			Branches: &Branches{Branches: []*Branch{{GuardSource: &ActionSource{Interpreter: second, Source: text}, Target: "stop"}}}}
	}
	s.Nodes["stop"] = &Node{}
	interps := InterpretersMap{"one": &c13Interp{"one"}, "two": &c13Interp{"two"}}
	ctx := context.Background()
	err := s.Compile(ctx, interps, verif.Choose("force", 2) == 1)
	if second == "nope" {
		verif.Assert("unknown-interpreter-rejected-whatever-came-before", err != nil)
		verif.Reach("sources-rejected")
		return
	}
	verif.Assert("known-interpreters-compile", err == nil)
	if err != nil {
		return
	}
	w, werr := s.Walk(ctx, &State{NodeName: "start", Bs: match.NewBindings()}, nil, &Control{Limit: 5}, nil)
	verif.Assert("walk-returns", werr == nil && w != nil)
	if w == nil {
		return
	}
	end := w.To()
	verif.Assert("machine-reaches-stop", end != nil && end.NodeName == "stop")
	if end != nil {
		// the last source executed is the second one: it ran under, and was compiled by, its own interpreter
		verif.Assert("source-ran-under-its-interpreter", verif.JSONEqual(end.Bs["ranBy"], second))
		verif.Assert("source-compiled-by-its-interpreter", verif.JSONEqual(end.Bs["compiledBy"], second))
	}
	verif.Reach("sources-done")
}

// ---- a compiled specification, serialised and reloaded ----

// VerifC13Reload: a specification is compiled, written out as JSON (json.Marshal of the Spec value, as a
// host or a tool would store it) and read back into a fresh Spec, which is compiled again: the reloaded
// specification has the same patterns, branching types and error settings and behaves the same on a
// message.  Patterns of every JSON shape (bare strings and bare variables included), written inline or as
// JSON text under the "json" pattern syntax; with and without action / guard sources.
func VerifC13Reload() {
	verif.MapOrderInsertion(true)
	x := c13Pattern()
	var s *Spec
	if verif.Choose("syntax", 2) == 0 {
		s = c13Spec("", x, map[string]interface{}{"k": "?v"})
	} else {
		s = c13Spec("json", verif.JSONText(x), `{"k":"?v"}`)
	}
	if verif.Choose("sources", 2) == 1 {
		s.Nodes["other"].ActionSource = &ActionSource{Interpreter: "stub", Source: "a"}
		s.Nodes["other"].Branches.Type = "bindings"
		s.Nodes["start"].Branches.Branches[0].GuardSource = &ActionSource{Interpreter: "stub", Source: "g"}
	}
	if verif.Choose("errorSettings", 2) == 1 {
		s.ActionErrorBranches = true
		s.ActionErrorNode = "other"
	}
	interps := InterpretersMap{"stub": &verifInterp{}}
	ctx := context.Background()
	if s.Compile(ctx, interps, false) != nil {
		verif.Note("rejected")
		return
	}
	js, err := json.Marshal(s)
	verif.Assert("compiled-spec-serialisable", err == nil)
	if err != nil {
		return
	}
	back := &Spec{}
	verif.Assert("serialised-spec-decodable", json.Unmarshal(js, back) == nil)
	verif.Assert("reloaded-spec-compiles", back.Compile(ctx, interps, false) == nil)
	if back.Nodes["start"] == nil || back.Nodes["other"] == nil || back.Nodes["start"].Branches == nil || back.Nodes["other"].Branches == nil {
		verif.Assert("reloaded-spec-has-the-nodes", false)
		return
	}
	verif.Reach("reloaded")
	p1 := s.Nodes["start"].Branches.Branches[0].Pattern
	p2 := back.Nodes["start"].Branches.Branches[0].Pattern
	verif.Assert("reload-keeps-pattern", verif.JSONEqual(p1, p2))
	verif.Assert("reload-keeps-pattern-2", verif.JSONEqual(s.Nodes["other"].Branches.Branches[0].Pattern, back.Nodes["other"].Branches.Branches[0].Pattern))
	verif.Assert("reload-keeps-branching-type", s.Nodes["start"].Branches.Type == back.Nodes["start"].Branches.Type && s.Nodes["other"].Branches.Type == back.Nodes["other"].Branches.Type)
	verif.Assert("reload-keeps-error-settings", s.ActionErrorBranches == back.ActionErrorBranches && s.ActionErrorNode == back.ActionErrorNode && s.ErrorNode == back.ErrorNode)
	verif.Assert("reload-keeps-node-set", len(s.Nodes) == len(back.Nodes))
	verif.Assert("reload-compiles-sources", (s.Nodes["other"].Action == nil) == (back.Nodes["other"].Action == nil) &&
		(s.Nodes["start"].Branches.Branches[0].Guard == nil) == (back.Nodes["start"].Branches.Branches[0].Guard == nil))
	msg := verif.AnyJSON("msg", verif.Opts{Depth: 1, Width: 1, Finite: true, NoVar: true, NoVarKeys: true})
	st := &State{NodeName: "start", Bs: match.NewBindings()}
	w1, _ := s.Walk(ctx, st, []interface{}{msg}, nil, nil)
	w2, _ := back.Walk(ctx, st.Copy(), []interface{}{msg}, nil, nil)
	verif.Assert("walks-return", w1 != nil && w2 != nil)
	if w1 != nil && w2 != nil {
		t1, t2 := w1.To(), w2.To()
		verif.Assert("reload-same-movement", (t1 == nil) == (t2 == nil))
		if t1 != nil && t2 != nil {
			verif.Assert("reload-same-node", t1.NodeName == t2.NodeName)
			verif.Assert("reload-same-bindings", verif.JSONEqual(map[string]interface{}(t1.Bs), map[string]interface{}(t2.Bs)))
		}
	}
}
