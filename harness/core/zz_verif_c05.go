//go:build verif

package core

import (
	"context"

	"github.com/Comcast/sheens/match"
	"github.com/Comcast/sheens/zzverif/verif"
)

// buildWalkSpec: a compiled spec with nn symbolic nodes ("n0".."n<nn-1>") plus "error". Each node is
// drawn from templates: terminal; message branching with one or two vocabulary branches; an action node
// (bindings branching) with a deterministic stub and one branch; message branching with a catch-all branch; a bindings-branching node without
// action; message branching whose guard fails (branch evaluation errors).  Targets range over the nodes
// and one missing name.  The spec's error node is empty, or consumes messages itself (selectively, or
// with a failing guard).
func buildWalkSpec(nn int, log *stubLog, errors bool) *Spec {
	names := []string{"n0", "n1", "n2"}[:nn]
	targets := append(append([]string{}, names...), "gone")
	s := &Spec{Name: "walk", Nodes: map[string]*Node{"error": {}}, ErrorNode: "error", compiled: true}
	et := 0
	if errors {
		// (focused slice: the machine does reach the error node and the error node consumes messages)
		et = 1 + verif.Choose("error.template", 2)
	}
	switch et {
	case 1: // the error node waits for a particular message to recover
		s.Nodes["error"] = &Node{Branches: &Branches{Type: "message", Branches: []*Branch{{Pattern: map[string]interface{}{"a": "n1"}, Target: "n0"}}}}
	case 2: // the error node consumes messages but evaluating its branch fails again
		g := &stubSpec{name: "error.guard", kind: aFail}
		s.Nodes["error"] = &Node{Branches: &Branches{Type: "message", Branches: []*Branch{{Pattern: map[string]interface{}{"a": "?x"}, Guard: g.action(log), Target: "n0"}}}}
	}
	for _, name := range names {
		n := &Node{}
		tmpl := 0
		if errors && name == "n0" {
			// the first node fails: failing guard at a message node, or a failing action
			tmpl = []int{6, 4}[verif.Choose(name+".template", 2)]
		} else if errors {
			tmpl = []int{0, 2, 6}[verif.Choose(name+".template", 3)]
		} else {
			tmpl = []int{0, 1, 2, 3, 4, 5, 7}[verif.Choose(name+".template", 7)]
		}
		target := ""
		if tmpl > 0 {
			target = targets[verif.Choose(name+".target", len(targets))]
		}
		switch tmpl {
		case 0: // terminal
		case 1: // message branching, selective pattern
			n.Branches = &Branches{Type: "message", Branches: []*Branch{{Pattern: map[string]interface{}{"a": "n1"}, Target: target}}}
		case 2: // message branching, catch-all pattern that binds
			n.Branches = &Branches{Type: "message", Branches: []*Branch{{Pattern: map[string]interface{}{"a": "?x"}, Target: target}}}
		case 3: // action node that succeeds (sets a binding, emits one message)
			st := &stubSpec{name: name + ".act", kind: aSet, key: "k", val: "v", emits: 1}
			n.Action = st.action(log)
			n.Branches = &Branches{Type: "bindings", Branches: []*Branch{{Target: target}}}
		case 4: // action node that fails
			st := &stubSpec{name: name + ".act", kind: aFail}
			n.Action = st.action(log)
			n.Branches = &Branches{Type: "bindings", Branches: []*Branch{{Target: target}}}
		case 5: // bindings branching without action: moves while ?x is bound
			n.Branches = &Branches{Type: "bindings", Branches: []*Branch{{Pattern: map[string]interface{}{"?x": "?v"}, Target: target}}}
		case 7: // message branching with a catch-all branch (no pattern, no guard): every message, {} included, moves it
			n.Branches = &Branches{Type: "message", Branches: []*Branch{{Target: target}}}
		case 6: // message branching whose guard fails: evaluating the branch is an error
			g := &stubSpec{name: name + ".guard", kind: aFail}
			n.Branches = &Branches{Type: "message", Branches: []*Branch{{Pattern: map[string]interface{}{"a": "?x"}, Guard: g.action(log), Target: target}}}
		}
		s.Nodes[name] = n
	}
	return s
}

func emittedOf(w *Walked) []interface{} {
	var acc []interface{}
	for _, s := range w.Strides {
		acc = append(acc, s.Emitted...)
	}
	return acc
}

func sameState(a, b *State) bool {
	if a == nil || b == nil {
		return a == nil && b == nil
	}
	return verif.And(a.NodeName == b.NodeName, verif.JSONEqual(map[string]interface{}(a.Bs), map[string]interface{}(b.Bs)))
}

func c05Inputs(errors bool) (s *Spec, st *State, msgs []interface{}) {
	nn := 2
	km := 2
	if verif.Tier() > 0 {
		// (three nodes with three messages did not finish in 10 minutes: one more message only)
		km = 3
	}
	if errors {
		nn, km = 2, 3
	}
	s = buildWalkSpec(nn, nil, errors)
	st = &State{NodeName: "n0", Bs: match.Bindings(verif.AnyMap("bs", smallBindingsOpts()))}
	k := verif.Choose("nmsgs", km+1)
	for i := 0; i < k; i++ {
		// non-null messages (the quantifier): {}, {"a":"n1"} or {"a":"zz"}
		m := verif.AnyJSON("msg", verif.Opts{Depth: 1, Width: 1, Tags: verif.TMap, Leaf: verif.TStr, Pool: []string{"a"}, ValPool: []string{"n1", "zz"}, NoVar: true})
		msgs = append(msgs, m)
	}
	return
}

// VerifC05Walk: accounting of one Walk: ordered exactly-once consumption, step bound, truthful remainder,
// chaining of strides, quiescence on completion.
func VerifC05Walk() { c05Walk(false) }

// VerifC05Errors: the same accounting for machines that fail (failing guard at a message node, failing
// action) under a spec whose own error node consumes messages (selectively, or failing again).
func VerifC05Errors() { c05Walk(true) }

func c05Walk(errors bool) {
	verif.MapOrderInsertion(true)
	s, st, msgs := c05Inputs(errors)
	limit := verif.Choose("limit", 5)
	ctl := &Control{Limit: limit}
	bpNode := ""
	if verif.Choose("breakpoint", 3) == 2 {
		bpNode = []string{"n0", "n1"}[verif.Choose("breakpointAt", 2)]
		ctl.Breakpoints = map[string]Breakpoint{"bp": func(ctx context.Context, st *State) bool { return st.NodeName == bpNode }}
	}
	var w *Walked
	var err error
	panicked := true
	func() {
		defer func() { recover() }()
		w, err = s.Walk(context.Background(), st, msgs, ctl, nil)
		panicked = false
	}()
	verif.Assume(!panicked && err == nil && w != nil)

	// (b) step bound
	verif.Assert("steps-within-limit", len(w.Strides) <= limit)
	// (a) ordered, at-most-once consumption
	c := 0
	for _, sd := range w.Strides {
		if sd.Consumed != nil {
			verif.Assert("consumes-no-more-than-given", c < len(msgs))
			if c < len(msgs) {
				verif.Assert("consumes-in-order", verif.SameObject(sd.Consumed, msgs[c]))
			}
			c++
		}
	}
	// a consumed message is offered to the branches: at a node whose first branch has neither pattern nor
	// guard, whatever was consumed (the empty message too) takes that branch
	for _, sd := range w.Strides {
		if sd.Consumed != nil && sd.From != nil {
			if n := s.Nodes[sd.From.NodeName]; n != nil && n.Branches != nil && len(n.Branches.Branches) > 0 {
				if b0 := n.Branches.Branches[0]; b0.Pattern == nil && b0.Guard == nil {
					verif.Assert("consumed-message-takes-the-catch-all-branch", sd.To != nil)
				}
			}
		}
	}
	// (e) each step starts from the state the previous one produced
	cur := st
	for _, sd := range w.Strides {
		verif.Assert("stride-starts-where-previous-ended", sameState(sd.From, cur))
		if sd.To != nil {
			cur = sd.To
		}
	}
	switch w.StoppedBecause {
	case Limited, BreakpointReached:
		verif.Reach("stopped-early")
		// (c) truthful remainder
		verif.Assert("remaining-count", len(w.Remaining) == len(msgs)-c)
		for i, r := range w.Remaining {
			if c+i < len(msgs) {
				verif.Assert("remaining-are-the-unconsumed", verif.SameObject(r, msgs[c+i]))
			}
		}
		if w.StoppedBecause == Limited {
			verif.Assert("limited-only-at-the-limit", len(w.Strides) == limit)
		}
	case Done:
		verif.Reach("done")
		// (d) quiescence: no further step is possible without a new message
		var s2 *Stride
		var e2 error
		func() {
			defer func() { recover() }()
			s2, e2 = s.Step(context.Background(), cur, nil, ctl, nil)
		}()
		if e2 == nil && s2 != nil && cur.NodeName != "error" {
			verif.Assert("done-means-quiescent", s2.To == nil)
		}
		// no message was discarded while the machine could consume it
		if c < len(msgs) {
			n := s.Nodes[cur.NodeName]
			consumer := n != nil && n.Branches != nil && n.Branches.Type == "message"
			verif.Assert("no-message-dropped-at-a-consuming-node", !consumer)
		}
	default:
		verif.Assert("known-stop-reason", false)
	}
	verif.Reach("end")
}

// VerifC05Split: delivering the messages in two consecutive batches gives the same final state and the
// same emitted messages, in the same order, as delivering them at once (when neither the limit nor a
// breakpoint intervenes).
func VerifC05Split() { c05Split(false) }

// VerifC05SplitErrors: batch-split equivalence for failing machines with a consuming error node.
func VerifC05SplitErrors() { c05Split(true) }

func c05Split(errors bool) {
	verif.MapOrderInsertion(true)
	s, st, msgs := c05Inputs(errors)
	ctl := &Control{Limit: 8}
	verif.Assume(len(msgs) > 0)
	j := verif.Choose("split", len(msgs)+1)
	var all, w1, w2 *Walked
	ok := false
	func() {
		defer func() { recover() }()
		all, _ = s.Walk(context.Background(), st, msgs, ctl, nil)
		w1, _ = s.Walk(context.Background(), st, msgs[:j], ctl, nil)
		mid := st
		if w1 != nil {
			if to := w1.To(); to != nil {
				mid = to
			}
			w2, _ = s.Walk(context.Background(), mid, msgs[j:], ctl, nil)
		}
		ok = true
	}()
	verif.Assume(ok && all != nil && w1 != nil && w2 != nil)
	verif.Assume(all.StoppedBecause == Done && w1.StoppedBecause == Done && w2.StoppedBecause == Done)
	verif.Reach("all-done")
	endAll := st
	if to := all.To(); to != nil {
		endAll = to
	}
	endSplit := st
	if to := w1.To(); to != nil {
		endSplit = to
	}
	if to := w2.To(); to != nil {
		endSplit = to
	}
	verif.Assert("split-same-final-state", sameState(endAll, endSplit))
	ea := emittedOf(all)
	es := append(emittedOf(w1), emittedOf(w2)...)
	verif.Assert("split-same-emission-count", len(ea) == len(es))
	for i := range ea {
		if i < len(es) {
			verif.Assert("split-same-emissions-in-order", verif.JSONEqual(ea[i], es[i]))
		}
	}
}
