//go:build verif

// Package verif is the intrinsics API used by the verification harnesses.
//
// Under the symbolic executor (gosym) every function marked "intrinsic" is intercepted by name and
// its body below is ignored.  Compiled natively (go test -tags verif -overlay ...) the bodies below
// feed the values recorded in a counterexample file ($VERIF_CEX) so that a solver model is replayed
// against the real code with the same harness and the same assertions.
package verif

import (
	"encoding/json"
	"fmt"
	"math"
	"os"
	"reflect"
	"runtime"
	"sort"
	"strconv"
	"time"
)

// Tag universe bits for Opts.Tags / Opts.Leaf.
const (
	TNil = 1 << iota
	TBool
	TF64
	TStr
	TMap
	TArr
	TI64
	TInt
	TAlien
)

const (
	TagsJSON    = TNil | TBool | TF64 | TStr | TMap | TArr
	TagsScalars = TNil | TBool | TF64 | TStr
)

// Alien is the representative of "a Go type JSON cannot produce".
type Alien = struct{}

// Opts bounds one lazy JSON input.
type Opts struct {
	Depth     int
	Width     int
	Nodes     int
	Tags      int
	Leaf      int
	NoVar     bool     // string values never start with '?'
	NoVarKeys bool     // map keys never start with '?'
	Finite    bool     // numbers are finite
	Pool      []string // when set, map keys are drawn from this pool (concrete strings)
	ValPool   []string // when set, string values are drawn from this pool
}

// ---- counterexample file ----

type tj struct {
	T string          `json:"t"`
	V json.RawMessage `json:"v,omitempty"`
}

type cexInput struct {
	Kind string `json:"kind"`
	Name string `json:"name"`
	Val  *tj    `json:"val,omitempty"`
	Int  int64  `json:"int,omitempty"`
	N    int    `json:"n,omitempty"`
}

type cexFile struct {
	Property string      `json:"property"`
	Harness  string      `json:"harness"`
	Label    string      `json:"label"`
	Kind     string      `json:"kind"`
	Tier     int         `json:"tier"`
	Known    []string    `json:"known"`
	Inputs   []*cexInput `json:"inputs"`
	Repeat   int         `json:"repeat"`
}

// State of one native replay.
type Replay struct {
	cex            *cexFile
	used           map[int]bool
	Failed         []string
	Reached        map[string]bool
	Mismatch       []string
	frozen         []frozenRec
	baseGoroutines int
}

type frozenRec struct {
	tag  string
	x    interface{}
	snap string
}

var cur *Replay

// Load reads a counterexample file.
func Load(path string) (*cexFile, error) {
	b, err := os.ReadFile(path)
	if err != nil {
		return nil, err
	}
	var c cexFile
	if err := json.Unmarshal(b, &c); err != nil {
		return nil, err
	}
	return &c, nil
}

// Begin starts a native replay of c.
func Begin(c *cexFile) *Replay {
	cur = &Replay{cex: c, used: map[int]bool{}, Reached: map[string]bool{}, baseGoroutines: runtime.NumGoroutine()}
	return cur
}

// HarnessName returns the harness a counterexample belongs to.
func (c *cexFile) HarnessName() string { return c.Harness }
func (c *cexFile) RepeatCount() int {
	if c.Repeat <= 0 {
		return 1
	}
	return c.Repeat
}
func (c *cexFile) LabelName() string { return c.Label }
func (c *cexFile) KindName() string  { return c.Kind }

type stopReplay struct{ why string }

// Run executes f as one replay attempt; it returns normally also when the replay stops early.
func (r *Replay) Run(f func()) {
	// goroutine baseline for Quiesce: taken inside the goroutine that runs the harness
	r.baseGoroutines = runtime.NumGoroutine()
	defer func() {
		if x := recover(); x != nil {
			if _, ok := x.(stopReplay); ok {
				return
			}
			r.Failed = append(r.Failed, fmt.Sprintf("panic:%v", x))
		}
	}()
	f()
}

func next(kind, name string) *cexInput {
	if cur == nil {
		panic("verif: no replay in progress")
	}
	for i, in := range cur.cex.Inputs {
		if !cur.used[i] && in.Kind == kind && in.Name == name {
			cur.used[i] = true
			return in
		}
	}
	cur.Mismatch = append(cur.Mismatch, kind+":"+name)
	panic(stopReplay{"input not recorded: " + kind + ":" + name})
}

func decode(t *tj) interface{} {
	if t == nil {
		return nil
	}
	switch t.T {
	case "nil":
		return nil
	case "bool":
		var b bool
		json.Unmarshal(t.V, &b)
		return b
	case "f64":
		var s string
		json.Unmarshal(t.V, &s)
		f, _ := strconv.ParseFloat(s, 64)
		return f
	case "str":
		var s string
		json.Unmarshal(t.V, &s)
		return s
	case "i64":
		var s string
		json.Unmarshal(t.V, &s)
		n, _ := strconv.ParseInt(s, 10, 64)
		return n
	case "int":
		var s string
		json.Unmarshal(t.V, &s)
		n, _ := strconv.ParseInt(s, 10, 64)
		return int(n)
	case "alien":
		return Alien{}
	case "nilmap":
		return map[string]interface{}(nil)
	case "map":
		var pairs []json.RawMessage
		json.Unmarshal(t.V, &pairs)
		m := make(map[string]interface{}, len(pairs))
		for _, p := range pairs {
			var kv []json.RawMessage
			json.Unmarshal(p, &kv)
			var k string
			json.Unmarshal(kv[0], &k)
			var v tj
			json.Unmarshal(kv[1], &v)
			m[k] = decode(&v)
		}
		return m
	case "arr":
		var elems []tj
		json.Unmarshal(t.V, &elems)
		a := make([]interface{}, len(elems))
		for i := range elems {
			a[i] = decode(&elems[i])
		}
		return a
	}
	panic("verif: bad typed json tag " + t.T)
}

// ---- intrinsics (native twins) ----

// AnyJSON (intrinsic): an arbitrary JSON-like value within the bounds o.
func AnyJSON(name string, o Opts) interface{} { return decode(next("json", name).Val) }

// AnyMap (intrinsic): an arbitrary map[string]interface{} within the bounds o.
func AnyMap(name string, o Opts) map[string]interface{} {
	v := decode(next("map", name).Val)
	if v == nil {
		return nil
	}
	return v.(map[string]interface{})
}

// AnyString (intrinsic): an arbitrary printable-ASCII string of bounded length.
func AnyString(name string) string { return decode(next("string", name).Val).(string) }

// AnyInt (intrinsic): an arbitrary int in [lo,hi].
func AnyInt(name string, lo, hi int) int { return int(decode(next("int", name).Val).(int64)) }

// AnyBool (intrinsic).
func AnyBool(name string) bool { return decode(next("bool", name).Val).(bool) }

// AnyFloat (intrinsic).
func AnyFloat(name string) float64 { return decode(next("float", name).Val).(float64) }

// Choose (intrinsic): a forked choice in [0,n).
func Choose(name string, n int) int { return int(next("choose", name).Int) }

// Assume (intrinsic): restricts the inputs; a replay whose assumption fails does not reproduce.
func Assume(c bool) {
	if !c {
		cur.Mismatch = append(cur.Mismatch, "assume")
		panic(stopReplay{"assumption false"})
	}
}

// Assert (intrinsic): the obligation.
func Assert(label string, c bool) {
	if !c {
		cur.Failed = append(cur.Failed, label)
		panic(stopReplay{"assert " + label})
	}
}

// Reach (intrinsic): vacuity witness label.
func Reach(label string) { cur.Reached[label] = true }

// Tier (intrinsic): 0 quick, 1 thorough.
func Tier() int { return cur.cex.Tier }

// Symbolic (intrinsic): true under gosym, false natively.
func Symbolic() bool { return false }

// Known (intrinsic): whether the exclusion of a listed known finding is active.
func Known(id string) bool {
	for _, k := range cur.cex.Known {
		if k == id {
			return true
		}
	}
	return false
}

// Bound / Note (intrinsic): evidence bookkeeping.
func Bound(name string, v interface{}) {}
func Note(name string)                 {}

// MapOrderInsertion (intrinsic): iterate maps in insertion order only (reference runs).
func MapOrderInsertion(on bool) {}

// Quiesce (intrinsic): lets every goroutine that can run do so and returns how many are still blocked.
// Natively: gives the scheduler a moment and reports 0 (goroutine leaks are observed symbolically).
func Quiesce() int {
	// natively: goroutines alive beyond those that existed when the replay began; finished goroutines need
	// a moment to be gone, leaked ones stay: poll briefly
	n := 0
	for i := 0; i < 10; i++ {
		time.Sleep(2 * time.Millisecond)
		n = runtime.NumGoroutine() - cur.baseGoroutines
		if n <= 0 {
			return 0
		}
	}
	return n
}

// Yield (intrinsic): a scheduling point.
func Yield() {}

// PreemptAtGo (intrinsic): from now on every `go` statement is a scheduling point for the symbolic scheduler:
// the new goroutine may run before the statement that follows. Natively a no-op.
func PreemptAtGo(on bool) {}

// PreemptAtLocks (intrinsic): from now on the symbolic scheduler may switch goroutines before every lock
// acquisition (Mutex.Lock, RWMutex.Lock/RLock), also an uncontended one. Natively a no-op.
func PreemptAtLocks(on bool) {}

// RaceReports (intrinsic): data races the symbolic executor saw on this path between accesses in the code
// under test (happens-before detection over its scheduler); natively nil - a reported race is confirmed by
// running the same harness under `go test -race`.
func RaceReports() []string { return nil }

// AtomicOps (intrinsic): number of sync/atomic pointer operations executed so far (-1 natively: unknown).
func AtomicOps() int { return -1 }

// FreezeGlobals (intrinsic): freezes every package-level variable of the named packages under tag.
// Natively package variables cannot be enumerated; harnesses additionally Freeze the exported ones.
func FreezeGlobals(tag string, pkgs ...string) {}

// PrintEvent is one fmt.Fprintf call seen by the symbolic executor.
type PrintEvent struct {
	Format string
	Args   []interface{}
}

// PrintLog (intrinsic): the fmt.Fprintf calls made so far; natively nil (the harness parses the text).
func PrintLog() []PrintEvent { return nil }

// ExploreMapOrderIn (intrinsic): from now on map iteration orders are explored only inside the named
// functions (full SSA names); everywhere else the insertion order is used. No names: everywhere again.
func ExploreMapOrderIn(funcs ...string) {}

// JSONText (intrinsic): the JSON text of x.
func JSONText(x interface{}) string {
	b, err := json.Marshal(x)
	if err != nil {
		cur.Mismatch = append(cur.Mismatch, "jsontext")
		panic(stopReplay{"value is not serialisable"})
	}
	return string(b)
}

// NoOrderLemma (intrinsic): explore every map order also inside the functions covered by an order lemma
// (used by the lemma harnesses themselves).
func NoOrderLemma(on bool) {}

// Boolean connectives that do not fork the symbolic search.
func And(a, b bool) bool     { return a && b }
func Or(a, b bool) bool      { return a || b }
func Not(a bool) bool        { return !a }
func Implies(a, b bool) bool { return !a || b }

// Possible (intrinsic): natively c; symbolically "c is not already known to be false on this path"
// (used to skip work, never to decide anything).
func Possible(c bool) bool { return c }

// Fork-free conditionals (intrinsics): under the symbolic executor they build one term.
func IteBool(c, a, b bool) bool {
	if c {
		return a
	}
	return b
}
func IteInt(c bool, a, b int) int {
	if c {
		return a
	}
	return b
}
func IteStr(c bool, a, b string) string {
	if c {
		return a
	}
	return b
}

// SuffixFrom (intrinsic): s[n:] when len(s) >= n, "" otherwise.
func SuffixFrom(s string, n int) string {
	if len(s) < n {
		return ""
	}
	return s[n:]
}

// NaN: a float64 NaN (a value JSON cannot carry).
func NaN() float64 { return math.NaN() }

// IsNaN (intrinsic).
func IsNaN(f float64) bool { return f != f }

// Keys (intrinsic): the keys of m in a canonical order, without forking on map order.
func Keys(m map[string]interface{}) []string {
	ks := make([]string, 0, len(m))
	for k := range m {
		ks = append(ks, k)
	}
	sort.Strings(ks)
	return ks
}

// Freeze (intrinsic): everything reachable from x belongs to the frozen input `tag`.
func Freeze(x interface{}, tag string) {
	cur.frozen = append(cur.frozen, frozenRec{tag: tag, x: x, snap: snapshot(x)})
}

// AssertNoWrites (intrinsic): no write to any object frozen under one of the tags.
func AssertNoWrites(label string, tags ...string) {
	for _, f := range cur.frozen {
		for _, t := range tags {
			if f.tag == t && snapshot(f.x) != f.snap {
				cur.Failed = append(cur.Failed, label)
				panic(stopReplay{"write " + label})
			}
		}
	}
}

// SameObject (intrinsic): identity of maps, slices (backing array) and pointers.
func SameObject(a, b interface{}) bool {
	va, vb := reflect.ValueOf(a), reflect.ValueOf(b)
	if !va.IsValid() || !vb.IsValid() {
		return false
	}
	switch va.Kind() {
	case reflect.Map, reflect.Slice, reflect.Ptr:
		if vb.Kind() != va.Kind() {
			return false
		}
		if va.Kind() == reflect.Slice && (va.Cap() == 0 || vb.Cap() == 0) {
			return false
		}
		return va.Pointer() != 0 && va.Pointer() == vb.Pointer()
	}
	return false
}

// JSONEqual (intrinsic): structural equality of JSON-like values; numbers compared as float64
// (NaN equals NaN), named map/slice types compare like their underlying types.
func JSONEqual(a, b interface{}) bool {
	fa, na := asFloat(a)
	fb, nb := asFloat(b)
	if na || nb {
		return na && nb && (fa == fb || (fa != fa && fb != fb))
	}
	if a == nil || b == nil {
		return isNilish(a) && isNilish(b) && kindClass(a) == kindClass(b)
	}
	va, vb := reflect.ValueOf(a), reflect.ValueOf(b)
	switch va.Kind() {
	case reflect.Bool:
		return vb.Kind() == reflect.Bool && va.Bool() == vb.Bool()
	case reflect.String:
		return vb.Kind() == reflect.String && va.String() == vb.String()
	case reflect.Map:
		if vb.Kind() != reflect.Map || va.Len() != vb.Len() {
			return false
		}
		for _, k := range va.MapKeys() {
			y := vb.MapIndex(k)
			if !y.IsValid() || !JSONEqual(va.MapIndex(k).Interface(), y.Interface()) {
				return false
			}
		}
		return true
	case reflect.Slice:
		if vb.Kind() != reflect.Slice || va.Len() != vb.Len() {
			return false
		}
		for i := 0; i < va.Len(); i++ {
			if !JSONEqual(va.Index(i).Interface(), vb.Index(i).Interface()) {
				return false
			}
		}
		return true
	}
	return reflect.TypeOf(a) == reflect.TypeOf(b) && reflect.DeepEqual(a, b)
}

func kindClass(a interface{}) int {
	if a == nil {
		return 0
	}
	return int(reflect.ValueOf(a).Kind())
}

func isNilish(a interface{}) bool { return a == nil }

func asFloat(a interface{}) (float64, bool) {
	switch v := a.(type) {
	case float64:
		return v, true
	case float32:
		return float64(v), true
	case int:
		return float64(v), true
	case int64:
		return float64(v), true
	case int32:
		return float64(v), true
	}
	return 0, false
}

// snapshot renders a deep, order-independent image of x (maps sorted, pointers followed, funcs by identity).
func snapshot(x interface{}) string {
	seen := map[uintptr]bool{}
	return snap(reflect.ValueOf(x), seen, 0)
}

func snap(v reflect.Value, seen map[uintptr]bool, depth int) string {
	if !v.IsValid() {
		return "nil"
	}
	if depth > 40 {
		return "..."
	}
	switch v.Kind() {
	case reflect.Interface:
		if v.IsNil() {
			return "nil"
		}
		return snap(v.Elem(), seen, depth+1)
	case reflect.Ptr:
		if v.IsNil() {
			return "nilptr"
		}
		if seen[v.Pointer()] {
			return fmt.Sprintf("<cycle %s>", v.Type())
		}
		seen[v.Pointer()] = true
		defer delete(seen, v.Pointer())
		return "&" + snap(v.Elem(), seen, depth+1)
	case reflect.Struct:
		s := v.Type().String() + "{"
		for i := 0; i < v.NumField(); i++ {
			s += v.Type().Field(i).Name + ":" + snap(v.Field(i), seen, depth+1) + ","
		}
		return s + "}"
	case reflect.Map:
		if v.IsNil() {
			return "nilmap"
		}
		var parts []string
		for _, k := range v.MapKeys() {
			parts = append(parts, snap(k, seen, depth+1)+":"+snap(v.MapIndex(k), seen, depth+1))
		}
		sort.Strings(parts)
		return fmt.Sprintf("map%v", parts)
	case reflect.Slice:
		if v.IsNil() {
			return "nilslice"
		}
		// include spare capacity: an in-place append is a write
		full := v.Slice3(0, v.Len(), v.Cap()).Slice(0, v.Cap())
		s := fmt.Sprintf("slice(len=%d)[", v.Len())
		for i := 0; i < full.Len(); i++ {
			s += snap(full.Index(i), seen, depth+1) + ","
		}
		return s + "]"
	case reflect.Array:
		s := "["
		for i := 0; i < v.Len(); i++ {
			s += snap(v.Index(i), seen, depth+1) + ","
		}
		return s + "]"
	case reflect.Func:
		if v.IsNil() {
			return "nilfunc"
		}
		return fmt.Sprintf("func@%x", v.Pointer())
	case reflect.Chan, reflect.UnsafePointer:
		return fmt.Sprintf("%s@%x", v.Kind(), v.Pointer())
	case reflect.Float64, reflect.Float32:
		return strconv.FormatUint(math.Float64bits(v.Float()), 16)
	case reflect.Bool:
		return strconv.FormatBool(v.Bool())
	case reflect.String:
		return strconv.Quote(v.String())
	case reflect.Int, reflect.Int8, reflect.Int16, reflect.Int32, reflect.Int64:
		return strconv.FormatInt(v.Int(), 10)
	case reflect.Uint, reflect.Uint8, reflect.Uint16, reflect.Uint32, reflect.Uint64, reflect.Uintptr:
		return strconv.FormatUint(v.Uint(), 10)
	}
	return fmt.Sprintf("<%s>", v.Kind())
}
