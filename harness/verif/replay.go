//go:build verif

package verif

import (
	"fmt"
	"os"
	"sort"
	"strings"
	"testing"
	"time"
)

// RunReplay replays every counterexample file listed in $VERIF_CEX (separated by ':') against the
// natively compiled harnesses and prints one machine-readable line per file:
//
//	VERIF-REPLAY <path> FAIL <labels> | PASS | MISMATCH <what> ; reached=<labels>
func RunReplay(t *testing.T, harnesses map[string]func()) {
	list := os.Getenv("VERIF_CEX")
	if list == "" {
		t.Skip("no VERIF_CEX")
	}
	for _, path := range strings.Split(list, ":") {
		if path == "" {
			continue
		}
		c, err := Load(path)
		if err != nil {
			fmt.Printf("VERIF-REPLAY %s ERROR %v\n", path, err)
			continue
		}
		h := harnesses[c.Harness]
		if h == nil {
			fmt.Printf("VERIF-REPLAY %s SKIP no harness %q in this package\n", path, c.Harness)
			continue
		}
		status := "PASS"
		detail := ""
		reached := map[string]bool{}
		n := c.RepeatCount()
		for i := 0; i < n; i++ {
			r := Begin(c)
			// watchdog: a harness that does not come back (a hang is what some counterexamples predict)
			finished := make(chan bool, 1)
			go func() { r.Run(h); finished <- true }()
			select {
			case <-finished:
			case <-time.After(20 * time.Second):
				r.Failed = append(r.Failed, "hang:no-return-within-20s")
			}
			for l := range r.Reached {
				reached[l] = true
			}
			if len(r.Failed) > 0 {
				status, detail = "FAIL", strings.Join(r.Failed, ",")
				break
			}
			if len(r.Mismatch) > 0 {
				status, detail = "MISMATCH", strings.Join(r.Mismatch, ",")
				// map-order dependent paths may still match on another attempt
				continue
			}
			status, detail = "PASS", ""
			if c.KindName() == "reach" && reached[c.LabelName()] {
				break // a vacuity witness only has to get to its label once
			}
		}
		var rl []string
		for l := range reached {
			rl = append(rl, l)
		}
		sort.Strings(rl)
		fmt.Printf("VERIF-REPLAY %s %s %s ; reached=%s\n", path, status, detail, strings.Join(rl, ","))
	}
}
