//go:build verif

package expect

import (
	"context"
	"encoding/json"
	"time"

	"github.com/Comcast/sheens/core"
	"github.com/Comcast/sheens/match"
	"github.com/Comcast/sheens/zzverif/verif"
)

// what the subprocess (cat: an echo) prints = what the session feeds it
var c19Lines = []string{`{"a":1}`, `{"b":2}`, `{"a":1,"b":2}`, `{"c":3}`, `not json`}

// what a session may expect / forbid
var c19Patterns = []interface{}{
	map[string]interface{}{"a": "?x"},
	map[string]interface{}{"b": 2.0},
	map[string]interface{}{"a": "?x", "b": "?y"}, // needs both properties in ONE message
}

// c19Guard: a guard that accepts (returns the bindings) or rejects (returns none).
func c19Guard(accept bool) core.Action {
	return &core.FuncAction{F: func(ctx context.Context, bs match.Bindings, props core.StepProps) (*core.Execution, error) {
		if accept {
			return core.NewExecution(bs), nil
		}
		return core.NewExecution(nil), nil
	}}
}

// c19Reference: the verdict the documentation promises for one IO step: go through the emitted lines in
// order; a line matching a forbidden pattern fails the step; a line satisfies every still-outstanding
// expected pattern it matches; the step passes when nothing is outstanding, and fails when the stream ends
// (the timeout arrives) before that.
func c19Reference(lines []string, outs []Output) bool {
	need := 0
	done := make([]bool, len(outs))
	for _, o := range outs {
		if !o.Inverted {
			need++
		}
	}
	for _, line := range lines {
		var msg interface{}
		if err := json.Unmarshal([]byte(line), &msg); err != nil {
			continue // noise
		}
		for i, o := range outs {
			if done[i] {
				continue
			}
			bss, err := match.Match(o.Pattern, msg, match.NewBindings())
			if err != nil || len(bss) == 0 {
				continue
			}
			if o.Guard != nil {
				// matched AND accepted by its guard
				exe, gerr := o.Guard.Exec(context.Background(), bss[0], nil)
				if gerr != nil || exe == nil || exe.Bs == nil {
					continue
				}
			}
			if o.Inverted {
				return false
			}
			done[i] = true
			need--
		}
		if need == 0 {
			return true
		}
	}
	return false
}

// VerifC19: the session passes only if the reference verdict is "pass" for every step.
func VerifC19() { c19Session(false) }

// c19Exiting: an echo process that exits (closing its stdout) after $1 lines; natively a shell loop, under
// the symbolic executor the echo-process model reads the same last argument.
const c19Exiting = `i=0; while [ $i -lt $1 ] && IFS= read -r l; do printf '%s\n' "$l"; i=$((i+1)); done`

// VerifC19Exit: the subprocess stops early: it echoes one or two lines and exits.  A stream that ends before
// every expected output was seen is a failure, never a pass.
func VerifC19Exit() { c19Session(true) }

func c19Session(exits bool) {
	verif.MapOrderInsertion(true)
	nsteps := 1
	// (thorough: three lines and guards on every output, still one step: two steps squared the space and
	// did not finish in 15 minutes)
	limit := 0
	if exits {
		limit = 1 + verif.Choose("exitAfter", 2)
	}
	s := &Session{DefaultTimeout: 300 * time.Millisecond}
	var stepLines [][]string
	for st := 0; st < nsteps; st++ {
		tag := "s" + string(rune('0'+st))
		io := IO{}
		maxLines := 2
		if verif.Tier() > 0 {
			maxLines = 3
		}
		nl := 1 + verif.Choose(tag+".nlines", maxLines)
		var lines []string
		for i := 0; i < nl; i++ {
			l := c19Lines[verif.Choose(tag+".line"+string(rune('0'+i)), len(c19Lines))]
			lines = append(lines, l)
			io.Inputs = append(io.Inputs, l)
		}
		no := 1 + verif.Choose(tag+".nouts", 2)
		expected := 0
		for i := 0; i < no; i++ {
			o := Output{Pattern: c19Patterns[verif.Choose(tag+".out"+string(rune('0'+i)), len(c19Patterns))]}
			// (quick: only the first output may be guarded; none when the process exits early)
			if !exits && (i == 0 || verif.Tier() > 0) {
				switch verif.Choose(tag+".guard"+string(rune('0'+i)), 3) {
				case 1:
					o.Guard = c19Guard(true)
				case 2:
					o.Guard = c19Guard(false)
				}
			}
			// (any output may be a forbidden one, also all of them: a step that only forbids)
			if verif.Choose(tag+".inv"+string(rune('0'+i)), 2) == 1 {
				o.Inverted = true
			} else {
				expected++
			}
			io.OutputSet = append(io.OutputSet, o)
		}
		s.IOs = append(s.IOs, io)
		stepLines = append(stepLines, lines)
	}
	ctx, cancel := context.WithCancel(context.Background())
	defer cancel()
	var err error
	if exits {
		err = s.Run(ctx, "", "sh", "-c", c19Exiting, "sh", string(rune('0'+limit)))
		// only the first `limit` lines come back
		left := limit
		for st := range stepLines {
			if len(stepLines[st]) > left {
				stepLines[st] = stepLines[st][:left]
			}
			left -= len(stepLines[st])
		}
	} else {
		err = s.Run(ctx, "", "cat")
	}
	want := true
	for st := 0; st < nsteps; st++ {
		// (the reference works on fresh copies of the outputs: Run may mark them)
		outs := make([]Output, len(s.IOs[st].OutputSet))
		for i, o := range s.IOs[st].OutputSet {
			outs[i] = Output{Pattern: o.Pattern, Inverted: o.Inverted, Guard: o.Guard}
		}
		if !c19Reference(stepLines[st], outs) {
			want = false
			break
		}
	}
	if err == nil {
		verif.Reach("session-passed")
		verif.Assert("passes-only-if-every-expectation-met-and-nothing-forbidden-seen", want)
	} else {
		verif.Reach("session-failed")
	}
	for _, r := range verif.RaceReports() {
		verif.Note("race: " + r)
		verif.Assert("no-data-race", false)
	}
}
