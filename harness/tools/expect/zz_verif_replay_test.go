//go:build verif

package expect

import (
	"testing"

	"github.com/Comcast/sheens/zzverif/verif"
)

func TestVerifReplay(t *testing.T) {
	verif.RunReplay(t, verifHarnesses)
}
