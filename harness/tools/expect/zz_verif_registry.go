//go:build verif

package expect

var verifHarnesses = map[string]func(){
	"VerifC19Exit": VerifC19Exit,
	"VerifC19":     VerifC19,
}
