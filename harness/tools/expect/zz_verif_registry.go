//go:build verif

package expect

var verifHarnesses = map[string]func(){
	"VerifC19": VerifC19,
}
