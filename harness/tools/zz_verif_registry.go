//go:build verif

package tools

var verifHarnesses = map[string]func(){
	"VerifC20Analyze": VerifC20Analyze,
	"VerifC20Dot":     VerifC20Dot,
	"VerifC20Mermaid": VerifC20Mermaid,
}
