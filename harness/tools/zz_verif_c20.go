//go:build verif

package tools

import (
	"context"
	"sort"
	"strings"

	"github.com/Comcast/sheens/core"
	"github.com/Comcast/sheens/match"
	"github.com/Comcast/sheens/zzverif/verif"
)

var c20Names = []string{"start", "a", "b"}
var c20Targets = []string{"start", "zeta", "a", "gone", "", "@v"}

func c20Action(name string) (core.Action, *core.ActionSource) {
	native := &core.FuncAction{F: func(ctx context.Context, bs match.Bindings, p core.StepProps) (*core.Execution, error) {
		return core.NewExecution(bs), nil
	}}
	switch verif.Choose(name, 4) {
	case 1:
		return native, nil // native action only (no source)
	case 2:
		return nil, &core.ActionSource{Interpreter: "", Source: "return _.bindings;"}
	case 3:
		return native, &core.ActionSource{Interpreter: "ecmascript", Source: "return _.bindings;"}
	}
	return nil, nil
}

// c20Spec: a spec graph with missing, empty and variable targets, terminal and unreachable nodes, native
// and source actions and guards, nil and empty branch lists.  The first node ("start") is fully general
// (up to two branches, every target, action and guard form); further nodes come from a smaller set so
// that the product stays explorable (thorough: a third node).
func c20Spec() *core.Spec {
	s := &core.Spec{Name: "c20", Nodes: map[string]*core.Node{}}
	// the general node is called "start" or not (a spec need not have a start node)
	first := []string{"start", "zeta"}[verif.Choose("first", 2)]
	n := &core.Node{}
	n.Action, n.ActionSource = c20Action("start.action")
	switch verif.Choose("start.branching", 3) {
	case 0:
	case 1:
		n.Branches = &core.Branches{Type: []string{"", "message"}[verif.Choose("start.type", 2)]}
	default:
		n.Branches = &core.Branches{Type: "bindings"}
		nb := 1 + verif.Choose("start.nb", 2)
		for j := 0; j < nb; j++ {
			bn := "start.br" + string(rune('0'+j))
			b := &core.Branch{Target: c20Targets[verif.Choose(bn+".target", len(c20Targets))]}
			if j == 0 {
				b.Pattern = map[string]interface{}{"k": "?x"}
				b.Guard, b.GuardSource = c20Action(bn + ".guard")
			}
			n.Branches.Branches = append(n.Branches.Branches, b)
		}
	}
	s.Nodes[first] = n
	// (a third node - even one that is only absent or terminal - did not finish in 10 minutes in the thorough
	// tier: both tiers explore the same space)
	extra := []string{"a"}
	for _, name := range extra {
		kinds := 5
		if name == "b" {
			kinds = 2 // (a second node from all five templates did not finish in 10 minutes: absent or terminal)
		}
		switch verif.Choose(name+".kind", kinds) {
		case 0: // absent
		case 1:
			s.Nodes[name] = &core.Node{}
		case 2:
			s.Nodes[name] = &core.Node{Branches: &core.Branches{Type: "message", Branches: []*core.Branch{{Target: first}}}}
		case 3:
			nn := &core.Node{Branches: &core.Branches{Branches: []*core.Branch{{Target: "gone", GuardSource: &core.ActionSource{Interpreter: "other", Source: "return null;"}}}}}
			nn.Action, nn.ActionSource = c20Action(name + ".action")
			s.Nodes[name] = nn
		default:
			// (this node may be called "_v": a name that differs from the variable target "@v" only in punctuation)
			nm := []string{name, "_v"}[verif.Choose(name+".name", 2)]
			s.Nodes[nm] = &core.Node{Branches: &core.Branches{Branches: []*core.Branch{{Target: "@v"}, {Target: nm}}}}
		}
	}
	return s
}

func setOf(xs []string) map[string]bool {
	m := map[string]bool{}
	for _, x := range xs {
		m[x] = true
	}
	return m
}

func sameSet(got []string, want map[string]bool) bool {
	if len(got) != len(want) {
		return false
	}
	for _, g := range got {
		if !want[g] {
			return false
		}
	}
	return true
}

// VerifC20Analyze: the analysis reports exactly the sets and counts of the spec graph.
func VerifC20Analyze() {
	s := c20Spec()
	var a *SpecAnalysis
	var err error
	panicked := true
	func() {
		defer func() { recover() }()
		a, err = Analyze(s)
		panicked = false
	}()
	verif.Assert("analyze-does-not-panic", !panicked)
	verif.Assert("analyze-succeeds", err == nil && a != nil)
	if a == nil {
		return
	}
	// reference, computed independently
	branches, actions, guards := 0, 0, 0
	terminal, targeted, missing, empty, tvars, interps := map[string]bool{}, map[string]bool{}, map[string]bool{}, map[string]bool{}, map[string]bool{}, map[string]bool{}
	names := make([]string, 0, len(s.Nodes))
	for name := range s.Nodes {
		names = append(names, name)
	}
	sort.Strings(names)
	for _, name := range names {
		n := s.Nodes[name]
		if n.Action != nil || n.ActionSource != nil {
			actions++
		}
		if n.ActionSource != nil {
			interps[n.ActionSource.Interpreter] = true
		}
		if n.Branches == nil || len(n.Branches.Branches) == 0 {
			terminal[name] = true
		}
		if n.Branches == nil {
			continue
		}
		for _, b := range n.Branches.Branches {
			branches++
			targeted[b.Target] = true
			if b.Target == "" {
				empty[name] = true
			}
			if strings.HasPrefix(b.Target, "@") {
				tvars[b.Target] = true
			} else if _, have := s.Nodes[b.Target]; !have {
				missing[b.Target] = true
			}
			if b.Guard != nil || b.GuardSource != nil {
				guards++
			}
			if b.GuardSource != nil {
				interps[b.GuardSource.Interpreter] = true
			}
		}
	}
	orphans := map[string]bool{}
	for _, name := range names {
		if !targeted[name] {
			orphans[name] = true
		}
	}
	verif.Assert("node-count", a.NodeCount == len(s.Nodes))
	verif.Assert("branch-count", a.Branches == branches)
	verif.Assert("action-count", a.Actions == actions)
	verif.Assert("guard-count", a.Guards == guards)
	verif.Assert("terminal-nodes", sameSet(a.TerminalNodes, terminal))
	verif.Assert("orphans", sameSet(a.Orphans, orphans))
	verif.Assert("empty-targets", sameSet(a.EmptyTargets, empty))
	verif.Assert("missing-targets", sameSet(a.MissingTargets, missing))
	verif.Assert("branch-target-variables", sameSet(a.BranchTargetVariables, tvars))
	if len(interps) == 0 {
		verif.Assert("interpreters-default", len(a.Interpreters) == 1 && a.Interpreters[0] == "default")
	} else {
		verif.Assert("interpreters", sameSet(a.Interpreters, interps))
	}
	verif.Reach("end")
}

// ---- renderings ----

type verifWriter struct {
	sb     strings.Builder
	closed bool
}

func (w *verifWriter) Write(p []byte) (int, error) { w.sb.Write(p); return len(p), nil }
func (w *verifWriter) Close() error                { w.closed = true; return nil }

type graphEvents struct {
	nodes []string    // node names (Dot) / node labels (Mermaid), one per emitted node line
	edges [][2]string // (from, to) per emitted edge line (Mermaid: node ids)
	ids   map[string]string
}

// dotEvents: node and edge statements of the Graphviz output.
func dotEvents(w *verifWriter) graphEvents {
	var g graphEvents
	if verif.Symbolic() {
		for _, ev := range verif.PrintLog() {
			switch {
			case strings.HasPrefix(ev.Format, "  %s [shape="):
				g.nodes = append(g.nodes, ev.Args[0].(string))
			case strings.HasPrefix(ev.Format, "  %s -> %s ["):
				g.edges = append(g.edges, [2]string{ev.Args[0].(string), ev.Args[1].(string)})
			}
		}
		return g
	}
	for _, line := range strings.Split(w.sb.String(), "\n") {
		if !strings.HasPrefix(line, "  ") || strings.HasPrefix(line, "  graph [") || strings.HasPrefix(line, "  node [") || strings.HasPrefix(line, "  edge [") {
			continue
		}
		rest := line[2:]
		if i := strings.Index(rest, " -> "); i >= 0 && i < strings.Index(rest+" [", " [") {
			to := rest[i+4:]
			to = to[:strings.Index(to, " [")]
			g.edges = append(g.edges, [2]string{rest[:i], to})
		} else if i := strings.Index(rest, " [shape="); i >= 0 {
			g.nodes = append(g.nodes, rest[:i])
		}
	}
	return g
}

func mermaidEvents(w *verifWriter) graphEvents {
	g := graphEvents{ids: map[string]string{}}
	if verif.Symbolic() {
		for _, ev := range verif.PrintLog() {
			switch ev.Format {
			case "  %s(\"%s\")\n", "  %s[\"%s\"]\n":
				g.nodes = append(g.nodes, ev.Args[1].(string))
				g.ids[ev.Args[0].(string)] = ev.Args[1].(string)
			case "  %s %s --> %s\n":
				g.edges = append(g.edges, [2]string{ev.Args[0].(string), ev.Args[2].(string)})
			}
		}
		return g
	}
	for _, line := range strings.Split(w.sb.String(), "\n") {
		if !strings.HasPrefix(line, "  ") || strings.HasPrefix(line, "  style ") {
			continue
		}
		rest := line[2:]
		if i := strings.Index(rest, " --> "); i >= 0 {
			from := rest[:strings.Index(rest, " ")]
			g.edges = append(g.edges, [2]string{from, rest[i+5:]})
			continue
		}
		for _, open := range []string{"(\"", "[\""} {
			if i := strings.Index(rest, open); i > 0 && strings.HasPrefix(rest, "n") {
				label := rest[i+2:]
				label = label[:len(label)-2]
				g.nodes = append(g.nodes, label)
				g.ids[rest[:i]] = label
				break
			}
		}
	}
	return g
}

func countOf(xs []string, x string) int {
	n := 0
	for _, y := range xs {
		if y == x {
			n++
		}
	}
	return n
}

// checkGraph: exactly one node per spec node (anything else drawn must be a branch target that is not a
// node, needed as an edge's endpoint), and exactly one edge per branch with the right endpoints.
func checkGraph(s *core.Spec, nodes []string, edges [][2]string) {
	for name := range s.Nodes {
		verif.Assert("one-node-per-spec-node", countOf(nodes, name) == 1)
	}
	for _, drawn := range nodes {
		if _, is := s.Nodes[drawn]; is {
			continue
		}
		isTarget := false
		for _, n := range s.Nodes {
			if n.Branches != nil {
				for _, b := range n.Branches.Branches {
					if b.Target == drawn {
						isTarget = true
					}
				}
			}
		}
		verif.Assert("no-invented-nodes", isTarget)
	}
	want := 0
	for name, n := range s.Nodes {
		if n.Branches == nil {
			continue
		}
		for _, b := range n.Branches.Branches {
			want++
			have := 0
			for _, e := range edges {
				if e[0] == name && e[1] == b.Target {
					have++
				}
			}
			same := 0
			for _, b2 := range n.Branches.Branches {
				if b2.Target == b.Target {
					same++
				}
			}
			verif.Assert("one-edge-per-branch", have == same)
		}
	}
	verif.Assert("edge-count", len(edges) == want)
}

// VerifC20Dot: the Graphviz rendering is total and faithful.
func VerifC20Dot() {
	verif.MapOrderInsertion(true)
	s := c20Spec()
	w := &verifWriter{}
	var err error
	panicked := true
	func() {
		defer func() { recover() }()
		err = Dot(s, w, "", "")
		panicked = false
	}()
	verif.Assert("dot-does-not-panic", !panicked)
	verif.Assert("dot-succeeds", err == nil)
	g := dotEvents(w)
	checkGraph(s, g.nodes, g.edges)
	verif.Reach("end")
}

// VerifC20Mermaid: the Mermaid rendering is total and faithful (edges are between node ids).
func VerifC20Mermaid() {
	verif.MapOrderInsertion(true)
	s := c20Spec()
	w := &verifWriter{}
	var err error
	panicked := true
	func() {
		defer func() { recover() }()
		err = Mermaid(s, w, nil, "", "")
		panicked = false
	}()
	verif.Assert("mermaid-does-not-panic", !panicked)
	verif.Assert("mermaid-succeeds", err == nil)
	g := mermaidEvents(w)
	var edges [][2]string
	for _, e := range g.edges {
		edges = append(edges, [2]string{g.ids[e[0]], g.ids[e[1]]})
	}
	checkGraph(s, g.nodes, edges)
	verif.Reach("end")
}
