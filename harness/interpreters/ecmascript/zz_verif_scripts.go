//go:build verif

package ecmascript

import (
	"strconv"

	"github.com/Comcast/sheens/zzverif/verif"
)

// Scripts are sequences of statements from a fixed vocabulary (real JavaScript, one statement per line).
// The symbolic executor runs them through the goja model (gosym/exec/models_goja.go); a native replay
// runs the very same text through the real goja.

const (
	opEmitConst       = iota // _.out({"n":<i>});
	opEmitBindings           // _.out(_.bindings);
	opEmitNaN                // _.out(0/0);          cannot be serialised: the emit fails
	opSetBinding             // _.bindings["k"] = 1;
	opDelBinding             // delete _.bindings["?x"];
	opSetDeep                // _.bindings["deep"]["x"] = 1;
	opSetPerm                // _.bindings["p!"] = "changed";
	opSetProp                // _.props["p"] = 2;
	opSetPropDeep            // _.props["nested"]["q"] = 2;
	opPolluteGlobal          // globalThis.polluted = 1;
	opPolluteProto           // Object.prototype.polluted = 1;
	opKillOut                // _.out = null;
	opReplaceBindings        // _.bindings = {"fresh":1};
	opProbe                  // emits {"polluted":true} if a global or prototype pollution is visible
	opThrow                  // throw "boom";
	opLoop                   // while (true) {}
	opSetArrElem             // _.bindings["arr"][0]["q"] = 9;   an object inside an array
)

func stmt(op int, i int) string {
	switch op {
	case opEmitConst:
		return `_.out({"n":` + strconv.Itoa(i) + `});`
	case opEmitBindings:
		return `_.out(_.bindings);`
	case opEmitNaN:
		return `_.out(0/0);`
	case opSetBinding:
		return `_.bindings["k"] = 1;`
	case opDelBinding:
		return `delete _.bindings["?x"];`
	case opSetDeep:
		return `_.bindings["deep"]["x"] = 1;`
	case opSetPerm:
		return `_.bindings["p!"] = "changed";`
	case opSetProp:
		return `_.props["p"] = 2;`
	case opSetPropDeep:
		return `_.props["nested"]["q"] = 2;`
	case opPolluteGlobal:
		return `globalThis.polluted = 1;`
	case opPolluteProto:
		return `Object.prototype.polluted = 1;`
	case opKillOut:
		return `_.out = null;`
	case opReplaceBindings:
		return `_.bindings = {"fresh":1};`
	case opProbe:
		return `if (typeof polluted !== "undefined" || ({}).polluted) _.out({"polluted":true});`
	case opThrow:
		return `throw "boom";`
	case opLoop:
		return `while (true) {}`
	case opSetArrElem:
		return `_.bindings["arr"][0]["q"] = 9;`
	}
	return ""
}

const (
	retBindings = iota // return _.bindings;
	retNone            // (falls off the end: undefined)
	retNull            // return null;
	retObject          // return {"a":1,"r":2.5};
	retNumber          // return 3;          not bindings
	retString          // return "x";        not bindings
	retArray           // return [1];        not bindings
)

func retStmt(r int) string {
	switch r {
	case retBindings:
		return `return _.bindings;`
	case retNull:
		return `return null;`
	case retObject:
		return `return {"a":1,"r":2.5};`
	case retNumber:
		return `return 3;`
	case retString:
		return `return "x";`
	case retArray:
		return `return [1];`
	}
	return ""
}

type script struct {
	ops []int
	ret int
	src string
}

// anyScript: up to maxOps statements from `allowed`, then one of the `rets` endings.
func anyScript(name string, maxOps int, allowed []int, rets []int) *script {
	s := &script{}
	n := verif.Choose(name+".len", maxOps+1)
	for i := 0; i < n; i++ {
		op := allowed[verif.Choose(name+".op"+strconv.Itoa(i), len(allowed))]
		s.ops = append(s.ops, op)
		s.src += stmt(op, i) + "\n"
	}
	s.ret = rets[verif.Choose(name+".ret", len(rets))]
	s.src += retStmt(s.ret)
	return s
}

// outcome: reference semantics of a script with respect to emission and success (deterministic, from
// the statement list alone): the indexes of the statements whose emit completed, and whether the script
// as a whole completes with bindings.
func (s *script) outcome(bsHasDeepMap bool, propsHasNested bool) (emits []int, ok bool) {
	outAlive := true
	bindingsReplaced := false
	for i, op := range s.ops {
		switch op {
		case opEmitConst, opEmitBindings:
			if !outAlive {
				return emits, false // TypeError: _.out is not a function
			}
			emits = append(emits, i)
		case opEmitNaN:
			return emits, false
		case opKillOut:
			outAlive = false
		case opSetDeep, opSetArrElem:
			if bindingsReplaced || !bsHasDeepMap {
				return emits, false // TypeError: cannot set property of undefined
			}
		case opSetPropDeep:
			if !propsHasNested {
				return emits, false
			}
		case opReplaceBindings:
			bindingsReplaced = true
		case opThrow, opLoop:
			return emits, false
		}
	}
	switch s.ret {
	case retNumber, retString, retArray:
		return emits, false
	}
	return emits, true
}
