//go:build verif

package ecmascript

import (
	"context"

	"github.com/Comcast/sheens/core"
	"github.com/Comcast/sheens/match"
	"github.com/Comcast/sheens/zzverif/verif"
)

// C18 through the ECMAScript interpreter: a permanent binding whose value is structured (an object in an
// array, an object in an object) faces a script - as the node's action or as a branch guard - that writes
// into that structure in place, overwrites or deletes the binding, and then returns the bindings, other
// bindings, null, or throws.  Whatever happens, the state the walk ends in holds the permanent binding
// with its original value, and so does the state the caller passed in.

func c18Value(kind int) interface{} {
	if kind == 0 {
		return []interface{}{map[string]interface{}{"q": 1.0}, 2.0}
	}
	return map[string]interface{}{"m": map[string]interface{}{"q": 1.0}}
}

var c18Writes = [][]string{
	// kind 0: an array holding an object
	{`_.bindings["p!"][0]["q"] = 9;`, `_.bindings["p!"][1] = 9;`, `_.bindings["p!"] = "changed";`, `delete _.bindings["p!"];`},
	// kind 1: an object holding an object
	{`_.bindings["p!"]["m"]["q"] = 9;`, `_.bindings["p!"]["m"] = 9;`, `_.bindings["p!"] = "changed";`, `delete _.bindings["p!"];`},
}

var c18Endings = []string{`return _.bindings;`, `return {"a":1,"r":2.5};`, `return null;`, `throw "boom";`}

func VerifC18Script() {
	verif.MapOrderInsertion(true)
	kind := verif.Choose("value", 2)
	src := c18Writes[kind][verif.Choose("write", 4)] + "\n" + c18Endings[verif.Choose("ending", len(c18Endings))]
	var start *core.Node
	if verif.Choose("asGuard", 2) == 0 {
		start = &core.Node{ActionSource: &core.ActionSource{Interpreter: "ecmascript", Source: src},
			Branches: &core.Branches{Branches: []*core.Branch{{Target: "stop"}}}}
	} else {
		start = &core.Node{Branches: &core.Branches{Branches: []*core.Branch{
			{GuardSource: &core.ActionSource{Interpreter: "ecmascript", Source: src}, Target: "stop"}, {Target: "other"}}}}
	}
	spec := &core.Spec{Name: "c18s", Nodes: map[string]*core.Node{"start": start, "stop": {}, "other": {}}}
	ctx := context.Background()
	err := spec.Compile(ctx, core.InterpretersMap{"ecmascript": NewInterpreter()}, true)
	verif.Assert("spec-compiles", err == nil)
	st := &core.State{NodeName: "start", Bs: match.Bindings{"p!": c18Value(kind), "x": 1.0}}
	w, werr := spec.Walk(ctx, st, nil, &core.Control{Limit: 4}, nil)
	verif.Assert("walk-returns", werr == nil && w != nil)
	if w == nil {
		return
	}
	want := c18Value(kind)
	// the caller's state still holds the permanent binding, unaltered
	got0, have0 := st.Bs["p!"]
	verif.Assert("given-state-keeps-permanent-binding", have0 && verif.JSONEqual(got0, want))
	end := w.To()
	if end == nil {
		end = st
	}
	got, have := end.Bs["p!"]
	verif.Assert("permanent-binding-present-after-script", have)
	if have {
		verif.Assert("permanent-binding-unaltered-after-script", verif.JSONEqual(got, want))
	}
	verif.Reach("script-done")
}
