//go:build verif

package ecmascript

import (
	"context"

	"github.com/Comcast/sheens/core"
	"github.com/Comcast/sheens/match"
	"github.com/Comcast/sheens/zzverif/verif"
)

var (
	opsC08  = []int{opEmitConst, opEmitBindings, opEmitNaN, opSetBinding, opKillOut, opThrow}
	retsC08 = []int{retBindings, retNone, retNull, retObject, retNumber, retString, retArray}
)

func c08Bindings() match.Bindings {
	return match.Bindings(verif.AnyMap("bs", verif.Opts{Depth: 1, Width: 1, Finite: true, NoVar: true, Pool: []string{"?x", "p!"},
		ValPool: []string{"v"}, Leaf: verif.TStr | verif.TF64}))
}

// VerifC08Exec: an ECMAScript action's emissions are visible iff the action completes: a script that
// emits and then fails (throws, emits something unserialisable, returns a non-object) yields no execution
// and no emitted message; a completing script yields exactly its emissions, in order.
func VerifC08Exec() {
	k := 2
	if verif.Tier() > 0 {
		k = 4
	}
	s := anyScript("s", k, opsC08, retsC08)
	bs := c08Bindings()
	interp := NewInterpreter()
	ctx := context.Background()
	compiled, cerr := interp.Compile(ctx, s.src)
	verif.Assert("script-compiles", cerr == nil)
	exe, err := interp.Exec(ctx, bs, core.StepProps{"p": 1.0}, s.src, compiled)
	wantEmits, wantOK := s.outcome(false, false)
	if !wantOK {
		verif.Reach("failing-script")
		verif.Assert("failing-script-reports-error", err != nil)
		verif.Assert("failing-script-emits-nothing", exe == nil || len(exe.Emitted) == 0)
		return
	}
	verif.Reach("completing-script")
	verif.Assert("completing-script-no-error", err == nil && exe != nil)
	if exe == nil {
		return
	}
	verif.Assert("emission-count", len(exe.Emitted) == len(wantEmits))
	for j, i := range wantEmits {
		if j < len(exe.Emitted) && s.ops[i] == opEmitConst {
			verif.Assert("emission-order", verif.JSONEqual(exe.Emitted[j], map[string]interface{}{"n": float64(i)}))
		}
	}
}

// VerifC08Step: through Step and Walk: a step's output is the node's action's emissions iff the action
// succeeded; guard scripts contribute nothing; a walk reports the emissions of the successful actions in
// execution order.
func VerifC08Step() {
	verif.MapOrderInsertion(true)
	k := 2
	s1 := anyScript("a1", k, []int{opEmitConst, opThrow, opEmitNaN}, []int{retBindings, retNumber})
	g := anyScript("g", 1, []int{opEmitConst, opThrow}, []int{retBindings, retNull, retNumber})
	s2 := anyScript("a2", 1, []int{opEmitConst, opThrow}, []int{retBindings})
	spec := &core.Spec{
		Name: "c08",
		Nodes: map[string]*core.Node{
			"start": {ActionSource: &core.ActionSource{Interpreter: "ecmascript", Source: s1.src},
				Branches: &core.Branches{Branches: []*core.Branch{{GuardSource: &core.ActionSource{Interpreter: "ecmascript", Source: g.src}, Target: "second"}, {Target: "stop"}}}},
			"second": {ActionSource: &core.ActionSource{Interpreter: "ecmascript", Source: s2.src},
				Branches: &core.Branches{Branches: []*core.Branch{{Target: "stop"}}}},
			"stop": {},
		},
	}
	ctx := context.Background()
	interps := core.InterpretersMap{"ecmascript": NewInterpreter()}
	err := spec.Compile(ctx, interps, true)
	verif.Assert("spec-compiles", err == nil)
	st := &core.State{NodeName: "start", Bs: c08Bindings()}
	w, werr := spec.Walk(ctx, st, nil, &core.Control{Limit: 5}, nil)
	verif.Assert("walk-returns", werr == nil && w != nil)
	if w == nil {
		return
	}
	// expected emissions: a1's (iff it completes), then - if the guard let us through - a2's (iff it completes)
	e1, ok1 := s1.outcome(false, false)
	var want []float64
	if ok1 {
		for _, i := range e1 {
			want = append(want, float64(i))
		}
		_, gok := g.outcome(false, false)
		if gok && g.ret == retBindings {
			e2, ok2 := s2.outcome(false, false)
			if ok2 {
				for _, i := range e2 {
					want = append(want, float64(i))
				}
			}
		}
	}
	var got []interface{}
	w.DoEmitted(func(x interface{}) error { got = append(got, x); return nil })
	verif.Assert("walk-emission-count", len(got) == len(want))
	for i := range want {
		if i < len(got) {
			verif.Assert("walk-emission-order", verif.JSONEqual(got[i], map[string]interface{}{"n": want[i]}))
		}
	}
	verif.Reach("end")
}
