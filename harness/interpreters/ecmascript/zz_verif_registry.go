//go:build verif

package ecmascript

var verifHarnesses = map[string]func(){
	"VerifC08Exec":       VerifC08Exec,
	"VerifC08Step":       VerifC08Step,
	"VerifC10Caller":     VerifC10Caller,
	"VerifC09":           VerifC09,
	"VerifC09Error":      VerifC09Error,
	"VerifC18Script":     VerifC18Script,
	"VerifC11":           VerifC11,
	"VerifC11Step":       VerifC11Step,
	"VerifC10Concurrent": VerifC10Concurrent,
	"VerifC10Isolation":  VerifC10Isolation,
}
