//go:build verif

package ecmascript

var verifHarnesses = map[string]func(){
	"VerifC08Exec": VerifC08Exec,
	"VerifC08Step": VerifC08Step,
	"VerifC10Caller": VerifC10Caller,
	"VerifC09": VerifC09,
	"VerifC10Isolation": VerifC10Isolation,
}
