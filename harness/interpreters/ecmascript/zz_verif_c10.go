//go:build verif

package ecmascript

import (
	"context"
	"sync"

	"github.com/Comcast/sheens/core"
	"github.com/Comcast/sheens/match"
	"github.com/Comcast/sheens/zzverif/verif"
)

var (
	opsMutate  = []int{opSetBinding, opDelBinding, opSetDeep, opSetArrElem, opSetPerm, opSetProp, opSetPropDeep, opReplaceBindings, opKillOut}
	opsPollute = []int{opPolluteGlobal, opPolluteProto, opKillOut, opReplaceBindings, opSetBinding}
)

func c10Bindings() match.Bindings {
	bs := match.Bindings(verif.AnyMap("bs", verif.Opts{Depth: 1, Width: 1, Finite: true, NoVar: true, Pool: []string{"?x", "p!"},
		ValPool: []string{"v"}, Leaf: verif.TStr | verif.TF64}))
	if verif.Choose("deep", 2) == 1 {
		bs["deep"] = map[string]interface{}{"x": 0.0, "inner": map[string]interface{}{"y": "z"}}
		bs["arr"] = []interface{}{map[string]interface{}{"q": 1.0}, 2.0}
	}
	return bs
}

// VerifC10Caller: whatever a script does to its environment, the caller's bindings and step properties
// are left intact (at any depth).
func VerifC10Caller() {
	k := 2
	if verif.Tier() > 0 {
		k = 3
	}
	s := anyScript("s", k, opsMutate, []int{retBindings, retObject, retNull})
	bs := c10Bindings()
	props := core.StepProps{"p": 1.0}
	if verif.Known("C10-props-shallow") || verif.Choose("nestedProps", 2) == 0 {
		// (a nested map inside step properties is the subject of a listed finding; see DESIGN.md)
		props["flat"] = "f"
	} else {
		props["nested"] = map[string]interface{}{"q": 1.0}
	}
	verif.Freeze(map[string]interface{}(bs), "bindings")
	verif.Freeze(map[string]interface{}(props), "props")
	interp := NewInterpreter()
	ctx := context.Background()
	compiled, cerr := interp.Compile(ctx, s.src)
	verif.Assert("script-compiles", cerr == nil)
	interp.Exec(ctx, bs, props, s.src, compiled)
	verif.AssertNoWrites("caller-bindings-and-props-intact", "bindings", "props")
	verif.Reach("end")
}

// VerifC10Isolation: nothing a script defines or alters (globals, built-in prototypes, members of the
// environment object) is visible to a later execution of the same or of another compiled source; the
// interpreter, the compiled program and package state are never written.
func VerifC10Isolation() {
	polluter := anyScript("polluter", 2, opsPollute, []int{retBindings, retNull})
	probe := &script{ops: []int{opProbe, opEmitConst}, ret: retBindings}
	probe.src = stmt(opProbe, 0) + "\n" + stmt(opEmitConst, 1) + "\n" + retStmt(retBindings)
	interp := NewInterpreter()
	ctx := context.Background()
	cp, e1 := interp.Compile(ctx, polluter.src)
	cq, e2 := interp.Compile(ctx, probe.src)
	verif.Assert("scripts-compile", e1 == nil && e2 == nil)
	same := verif.Choose("sameSource", 2) == 1
	verif.Freeze(interp, "interpreter")
	verif.Freeze(cp, "program")
	verif.Freeze(cq, "program")
	verif.FreezeGlobals("globals", "github.com/Comcast/sheens/interpreters/ecmascript", "github.com/Comcast/sheens/core", "github.com/Comcast/sheens/match")
	verif.Freeze(&core.DefaultInterpreters, "globals")
	verif.Freeze(&Interrupted, "globals")

	bs1 := match.Bindings{"a": 1.0}
	interp.Exec(ctx, bs1, core.StepProps{}, polluter.src, cp)
	if same {
		// the same compiled source again: it must start from a clean environment too
		exe, err := interp.Exec(ctx, match.Bindings{"a": 1.0}, core.StepProps{}, polluter.src, cp)
		_, ok := polluter.outcome(false, false)
		verif.Assert("second-run-of-same-source-behaves-as-first", (err == nil && exe != nil) == ok)
	}
	bs2 := match.Bindings{"b": 2.0}
	exe, err := interp.Exec(ctx, bs2, core.StepProps{}, probe.src, cq)
	verif.Assert("probe-completes", err == nil && exe != nil)
	if exe != nil {
		// the probe emits {"polluted":true} first if it sees a leftover; otherwise only {"n":1}
		verif.Assert("probe-sees-no-pollution", len(exe.Emitted) == 1)
		if len(exe.Emitted) >= 1 {
			verif.Assert("probe-emission", verif.JSONEqual(exe.Emitted[len(exe.Emitted)-1], map[string]interface{}{"n": 1.0}))
		}
		verif.Assert("probe-sees-its-own-bindings", verif.JSONEqual(map[string]interface{}(exe.Bs), map[string]interface{}{"b": 2.0}))
	}
	verif.AssertNoWrites("interpreter-program-and-package-state-read-only", "interpreter", "program", "globals")
	verif.Reach("end")
}

// VerifC10Concurrent: two executions of ONE compiled source on ONE interpreter at the same time, each with
// its own bindings and props: no data race among the interpreter's own accesses (happens-before detector),
// and each execution completes as it does alone.
func VerifC10Concurrent() {
	verif.MapOrderInsertion(true) // (iteration orders are irrelevant to which accesses happen)
	s := anyScript("s", 2, opsMutate, []int{retBindings, retObject, retNull})
	interp := NewInterpreter()
	ctx := context.Background()
	compiled, cerr := interp.Compile(ctx, s.src)
	verif.Assert("script-compiles", cerr == nil)
	var errs [2]error
	var wg sync.WaitGroup
	wg.Add(2)
	first := c10Bindings()
	for i := 0; i < 2; i++ {
		i := i
		bs := first
		if i == 1 {
			// the second execution gets an equal but separate copy
			x, err := core.Canonicalize(map[string]interface{}(first))
			verif.Assert("bindings-copyable", err == nil)
			bs = match.Bindings(x.(map[string]interface{}))
		}
		props := core.StepProps{"p": 1.0, "nested": map[string]interface{}{"q": 1.0}}
		go func() {
			defer wg.Done()
			_, errs[i] = interp.Exec(ctx, bs, props, s.src, compiled)
		}()
	}
	wg.Wait()
	for _, r := range verif.RaceReports() {
		verif.Note("race: " + r)
		verif.Assert("no-data-race", false)
	}
	verif.Assert("concurrent-executions-agree", (errs[0] == nil) == (errs[1] == nil))
	verif.Reach("concurrent-done")
}
