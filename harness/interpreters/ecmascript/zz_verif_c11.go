//go:build verif

package ecmascript

import (
	"context"
	"time"

	"github.com/Comcast/sheens/core"
	"github.com/Comcast/sheens/match"
	"github.com/Comcast/sheens/zzverif/verif"
)

// VerifC11: an action running under a context that ends (deadline or cancellation, before, during or never
// during the execution) stops and reports the timeout error; a looping script can only end by being
// interrupted, so "Exec returns" is the obligation (a script that is never interrupted is a deadlock of
// the model); after the call every goroutine started for the execution has finished.
//
// The goja model's "while (true) {}" blocks until Runtime.Interrupt is called on THAT runtime; the
// deadline of context.WithTimeout may pass at any scheduling point (environment action).
func VerifC11() {
	// the watcher goroutine may run before the statement after its `go` (e.g. when the context is already done)
	verif.PreemptAtGo(true)
	looping := verif.Choose("looping", 2) == 1
	var s *script
	if looping {
		s = &script{ops: []int{opEmitConst, opLoop}, ret: retBindings}
		s.src = stmt(opEmitConst, 0) + "\n" + stmt(opLoop, 1) + "\n" + retStmt(retBindings)
	} else {
		s = anyScript("s", 1, []int{opEmitConst, opThrow}, []int{retBindings, retNumber})
	}
	interp := NewInterpreter()
	bg := context.Background()
	compiled, cerr := interp.Compile(bg, s.src)
	verif.Assert("script-compiles", cerr == nil)

	var ctx context.Context
	var cancel context.CancelFunc
	mode := verif.Choose("context", 5)
	switch mode {
	case 0: // deadline that passes at some point
		ctx, cancel = context.WithTimeout(bg, 150*time.Millisecond)
	case 1: // already cancelled when the action starts
		ctx, cancel = context.WithCancel(bg)
		cancel()
	case 3: // a distant deadline, but cancelled when the action starts
		ctx, cancel = context.WithTimeout(bg, 3*time.Second)
		cancel()
	case 4: // a distant deadline, cancelled by somebody else while the action runs
		ctx, cancel = context.WithTimeout(bg, 3*time.Second)
		go func() {
			time.Sleep(50 * time.Millisecond)
			cancel()
		}()
	default: // never ends
		ctx, cancel = context.WithCancel(bg)
		verif.Assume(!looping) // a looping script under a context that never ends is outside the property
	}
	defer cancel()

	started := time.Now()
	exe, err := interp.Exec(ctx, match.Bindings{"a": 1.0}, core.StepProps{}, s.src, compiled)
	verif.Reach("exec-returned")
	if mode == 3 || mode == 4 {
		// the end of the context interrupts the script - not the (distant) deadline it also carries
		verif.Assert("cancellation-interrupts-before-the-distant-deadline", time.Since(started) < time.Second)
	}
	if mode == 4 {
		time.Sleep(100 * time.Millisecond) // (the harness's own cancelling goroutine is done by then)
	}
	if looping {
		verif.Assert("looping-script-reports-timeout", err == Interrupted)
		verif.Assert("interrupted-script-emits-nothing", exe == nil)
	}
	if err == Interrupted && looping {
		// (witness label only for the looping script: natively its interruption does not depend on which
		// goroutine the Go scheduler happens to run first)
		verif.Reach("interrupted")
	}
	// every goroutine started for the execution can finish now (none stays blocked)
	verif.Assert("no-goroutine-outlives-the-call", verif.Quiesce() == 0)
	// the watcher goroutine and the execution share only what they synchronise on
	for _, r := range verif.RaceReports() {
		verif.Note("race: " + r)
		verif.Assert("no-data-race", false)
	}
}

// VerifC11Step: the timeout error is routed like any other action error.
func VerifC11Step() {
	verif.PreemptAtGo(true)
	verif.MapOrderInsertion(true)
	src := stmt(opLoop, 0)
	spec := &core.Spec{
		Name:            "c11",
		ActionErrorNode: []string{"", "handler"}[verif.Choose("actionErrorNode", 2)],
		Nodes: map[string]*core.Node{
			"start":   {ActionSource: &core.ActionSource{Interpreter: "ecmascript", Source: src}, Branches: &core.Branches{Branches: []*core.Branch{{Target: "next"}}}},
			"next":    {},
			"handler": {},
		},
	}
	bg := context.Background()
	err := spec.Compile(bg, core.InterpretersMap{"ecmascript": NewInterpreter()}, true)
	verif.Assert("spec-compiles", err == nil)
	ctx, cancel := context.WithTimeout(bg, 150*time.Millisecond)
	defer cancel()
	w, werr := spec.Walk(ctx, &core.State{NodeName: "start", Bs: match.Bindings{"a": 1.0}}, nil, &core.Control{Limit: 3}, nil)
	verif.Assert("walk-returns", werr == nil && w != nil)
	if w == nil {
		return
	}
	to := w.To()
	verif.Assert("walk-moved-to-an-error-state", to != nil)
	if to == nil {
		return
	}
	if spec.ActionErrorNode != "" {
		verif.Assert("routed-to-action-error-node", to.NodeName == "handler")
		verif.Assert("timeout-text-bound", verif.JSONEqual(to.Bs["actionError"], InterruptedMessage))
	} else {
		verif.Assert("routed-to-error-node", to.NodeName == "error")
		verif.Assert("timeout-text-bound", verif.JSONEqual(to.Bs["error"], InterruptedMessage))
	}
	verif.Assert("no-goroutine-outlives-the-call", verif.Quiesce() == 0)
	verif.Reach("end")
}
