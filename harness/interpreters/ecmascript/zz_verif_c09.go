//go:build verif

package ecmascript

import (
	"context"
	"encoding/json"

	"github.com/Comcast/sheens/core"
	"github.com/Comcast/sheens/match"
	"github.com/Comcast/sheens/zzverif/verif"
)

// rtState: what a host gets back after writing the state out as JSON and reading it in again
// (json.Marshal / json.Unmarshal of the core.State value itself, so its field tags take part).
func rtState(s *core.State) (*core.State, bool) {
	js, err := json.Marshal(s)
	if err != nil {
		return nil, false
	}
	var back core.State
	if err = json.Unmarshal(js, &back); err != nil {
		return nil, false
	}
	return &back, true
}

// what the action binds (JSON-representable values: integers, fractions, arrays, objects, null)
var c09Returns = []string{
	`return {"?n":3};`,
	`return {"?n":2.5};`,
	`return {"?<n":10};`,
	`return {"?xs":[1,2]};`,
	`return {"?o":{"k":1,"l":[1]}};`,
	`return {"?z":null,"?s":"str"};`,
	`return {"votes":{"alice":2,"bob":1},"n":3,"xs":[2,5]};`,
	`throw "boom";`,
	`return {};`,
}

// what the next node's branch asks of the message, re-using the bound values as sub-patterns
var c09Patterns = []interface{}{
	map[string]interface{}{"v": "?n"},
	map[string]interface{}{"v": "?<n"},
	map[string]interface{}{"v": "?xs"},
	map[string]interface{}{"v": []interface{}{"?n"}},
	map[string]interface{}{"v": "?o"},
	map[string]interface{}{"v": "?z", "w": "?s"},
}

// what a later bindings-branching node asks of the bindings the action produced (numeric literals of the
// spec are float64; the values in memory may be int64)
var c09BindingPatterns = []interface{}{
	nil,
	map[string]interface{}{"n": 3.0},
	map[string]interface{}{"votes": map[string]interface{}{"?winner": 2.0}},
	map[string]interface{}{"votes": map[string]interface{}{"bob": 1.0, "alice": "?a"}},
	map[string]interface{}{"xs": []interface{}{2.0, "?rest"}},
}

func c09Spec() *core.Spec {
	ret := c09Returns[verif.Choose("return", len(c09Returns))]
	pat := c09Patterns[verif.Choose("pattern", len(c09Patterns))]
	bpat := c09BindingPatterns[verif.Choose("bindingsPattern", len(c09BindingPatterns))]
	if bpat != nil {
		// a message moves the machine to a node that branches on the bindings alone
		return &core.Spec{
			Name: "c09b",
			Nodes: map[string]*core.Node{
				"start": {ActionSource: &core.ActionSource{Interpreter: "ecmascript", Source: ret},
					Branches: &core.Branches{Branches: []*core.Branch{{Target: "wait"}}}},
				"wait":   {Branches: &core.Branches{Type: "message", Branches: []*core.Branch{{Target: "decide"}}}},
				"decide": {Branches: &core.Branches{Type: "bindings", Branches: []*core.Branch{{Pattern: bpat, Target: "yes"}, {Target: "no"}}}},
				"yes":    {},
				"no":     {},
			},
		}
	}
	return &core.Spec{
		Name: "c09",
		Nodes: map[string]*core.Node{
			"start": {ActionSource: &core.ActionSource{Interpreter: "ecmascript", Source: ret},
				Branches: &core.Branches{Branches: []*core.Branch{{Target: "wait"}}}},
			"wait": {Branches: &core.Branches{Type: "message", Branches: []*core.Branch{{Pattern: pat, Target: "yes"}, {Target: "no"}}}},
			"yes":  {},
			"no":   {},
		},
	}
}

// VerifC09: persisting a machine's state as JSON at a message boundary and restoring it is unobservable:
// the same message then leads to the same node and the same bindings.
func VerifC09() {
	verif.MapOrderInsertion(true)
	spec := c09Spec()
	ctx := context.Background()
	err := spec.Compile(ctx, core.InterpretersMap{"ecmascript": NewInterpreter()}, true)
	verif.Assert("spec-compiles", err == nil)
	// the message: {"v": x} or {"v": x, "w": y} with x, y any JSON value up to depth 2
	msg := map[string]interface{}{"v": verif.AnyJSON("v", verif.Opts{Depth: 2, Width: 2, Nodes: 4, Finite: true, NoVar: true, NoVarKeys: true,
		Pool: []string{"k", "l"}, ValPool: []string{"str"}})}
	if verif.Choose("w", 2) == 1 {
		msg["w"] = verif.AnyJSON("w", verif.Opts{Depth: 0, Finite: true, NoVar: true, ValPool: []string{"str"}})
	}
	st0 := &core.State{NodeName: "start", Bs: match.NewBindings()}
	ctl := &core.Control{Limit: 6}

	// run A: in memory all the way
	wa, ea := spec.Walk(ctx, st0, []interface{}{msg}, ctl, nil)
	verif.Assert("walk-returns", ea == nil && wa != nil)
	// run B: stop at the message boundary, persist + restore, continue
	w1, e1 := spec.Walk(ctx, st0, nil, ctl, nil)
	verif.Assert("walk-returns", e1 == nil && w1 != nil)
	if wa == nil || w1 == nil {
		return
	}
	mid := w1.To()
	if mid == nil {
		mid = st0
	}
	restored, ok := rtState(mid)
	verif.Assert("reachable-state-is-serialisable", ok)
	if !ok {
		return
	}
	wb, eb := spec.Walk(ctx, restored, []interface{}{msg}, ctl, nil)
	verif.Assert("walk-returns", eb == nil && wb != nil)
	if wb == nil {
		return
	}
	enda, endb := wa.To(), wb.To()
	if endb == nil {
		endb = restored
	}
	if enda == nil {
		enda = st0
	}
	verif.Assert("same-node-after-restore", enda.NodeName == endb.NodeName)
	ra, oka := rtState(enda)
	rb, okb := rtState(endb)
	verif.Assert("final-states-serialisable", oka && okb)
	if oka && okb {
		verif.Assert("same-bindings-after-restore", verif.JSONEqual(map[string]interface{}(ra.Bs), map[string]interface{}(rb.Bs)))
	}
	verif.Reach("end")
}

// ---- states at the error node carrying the diagnostic bindings ----

// how the machine fails: the first action throws or returns a non-object; or a first action succeeds
// (binding an integer) and the second one throws
var c09Failures = [][]string{
	{`throw "boom";`},
	{`return 3;`},
	{`return {"n":3,"o":{"k":1}};`, `throw "boom";`},
}

// what a node reached from the error node asks of the diagnostic bindings
var c09ErrorPatterns = []interface{}{
	map[string]interface{}{"lastBindings": map[string]interface{}{}},
	map[string]interface{}{"lastBindings": map[string]interface{}{"a": "?v"}},
	map[string]interface{}{"lastBindings": map[string]interface{}{"?k": "?v"}},
	map[string]interface{}{"lastBindings": map[string]interface{}{"n": 3.0}},
	map[string]interface{}{"lastBindings": "?lb", "lastNode": "?ln"},
	map[string]interface{}{"error": "?e", "lastNode": "start"},
}

func c09ErrorSpec() *core.Spec {
	fail := c09Failures[verif.Choose("failure", len(c09Failures))]
	bpat := c09ErrorPatterns[verif.Choose("errorPattern", len(c09ErrorPatterns))]
	nodes := map[string]*core.Node{
		// the spec's own error node waits for a message, then a node decides on the diagnostic bindings
		"error":  {Branches: &core.Branches{Type: "message", Branches: []*core.Branch{{Target: "decide"}}}},
		"decide": {Branches: &core.Branches{Type: "bindings", Branches: []*core.Branch{{Pattern: bpat, Target: "yes"}, {Target: "no"}}}},
		"yes":    {},
		"no":     {},
	}
	if len(fail) == 1 {
		nodes["start"] = &core.Node{ActionSource: &core.ActionSource{Interpreter: "ecmascript", Source: fail[0]},
			Branches: &core.Branches{Branches: []*core.Branch{{Target: "yes"}}}}
	} else {
		nodes["start"] = &core.Node{ActionSource: &core.ActionSource{Interpreter: "ecmascript", Source: fail[0]},
			Branches: &core.Branches{Branches: []*core.Branch{{Target: "second"}}}}
		nodes["second"] = &core.Node{ActionSource: &core.ActionSource{Interpreter: "ecmascript", Source: fail[1]},
			Branches: &core.Branches{Branches: []*core.Branch{{Target: "yes"}}}}
	}
	return &core.Spec{Name: "c09e", Nodes: nodes}
}

// VerifC09Error: the same for a machine that failed: the state at the error node (error, lastNode,
// lastBindings) is persisted and restored before the next message.
func VerifC09Error() {
	verif.MapOrderInsertion(true)
	spec := c09ErrorSpec()
	ctx := context.Background()
	err := spec.Compile(ctx, core.InterpretersMap{"ecmascript": NewInterpreter()}, true)
	verif.Assert("spec-compiles", err == nil)
	bs0 := match.NewBindings()
	if verif.Choose("startBindings", 2) == 1 {
		bs0["a"] = verif.AnyJSON("a", verif.Opts{Depth: 1, Width: 1, Finite: true, NoVar: true, NoVarKeys: true, Pool: []string{"k"}, ValPool: []string{"str"}})
	}
	st0 := &core.State{NodeName: "start", Bs: bs0}
	ctl := &core.Control{Limit: 8}
	msg := map[string]interface{}{"go": true}

	wa, ea := spec.Walk(ctx, st0, []interface{}{msg}, ctl, nil)
	verif.Assert("walk-returns", ea == nil && wa != nil)
	w1, e1 := spec.Walk(ctx, st0, nil, ctl, nil)
	verif.Assert("walk-returns", e1 == nil && w1 != nil)
	if wa == nil || w1 == nil {
		return
	}
	mid := w1.To()
	verif.Assert("machine-is-at-the-error-node", mid != nil && mid.NodeName == "error")
	if mid == nil {
		return
	}
	_, haveLB := mid.Bs["lastBindings"]
	verif.Assert("error-state-carries-diagnostics", haveLB)
	restored, ok := rtState(mid)
	verif.Assert("reachable-state-is-serialisable", ok)
	if !ok {
		return
	}
	wb, eb := spec.Walk(ctx, restored, []interface{}{msg}, ctl, nil)
	verif.Assert("walk-returns", eb == nil && wb != nil)
	if wb == nil {
		return
	}
	enda, endb := wa.To(), wb.To()
	if enda == nil || endb == nil {
		verif.Assert("both-runs-move", enda == nil && endb == nil)
		return
	}
	verif.Assert("same-node-after-restore", enda.NodeName == endb.NodeName)
	ra, oka := rtState(enda)
	rb, okb := rtState(endb)
	verif.Assert("final-states-serialisable", oka && okb)
	if oka && okb {
		verif.Assert("same-bindings-after-restore", verif.JSONEqual(map[string]interface{}(ra.Bs), map[string]interface{}(rb.Bs)))
	}
	verif.Reach("end-error")
}
