//go:build verif

package sio

import (
	"context"
	"encoding/json"

	"github.com/Comcast/sheens/core"
	"github.com/Comcast/sheens/crew"
	"github.com/Comcast/sheens/match"
	"github.com/Comcast/sheens/zzverif/verif"
)

// ---- recorder machines ----

type receipt struct {
	machine string
	tag     string
}

type c14Log struct {
	receipts []receipt
}

// recorderSpec: start --(message {"k":?k,"tag":?tag})--> got [action: record the receipt; on k==1 emit the
// machine's configured messages] --> start.
func recorderSpec(id string, log *c14Log, emits []interface{}) *core.Spec {
	act := &core.FuncAction{F: func(ctx context.Context, bs match.Bindings, props core.StepProps) (*core.Execution, error) {
		tag, _ := bs["?tag"].(string)
		log.receipts = append(log.receipts, receipt{machine: id, tag: tag})
		out := bs.Copy()
		delete(out, "?k")
		delete(out, "?tag")
		exe := core.NewExecution(out)
		if k, is := bs["?k"].(float64); is && k == 1 {
			for _, e := range emits {
				exe.AddEmitted(e)
			}
		}
		return exe, nil
	}}
	s := &core.Spec{
		Name: "recorder-" + id,
		Nodes: map[string]*core.Node{
			"start": {Branches: &core.Branches{Type: "message", Branches: []*core.Branch{{Pattern: map[string]interface{}{"k": "?k", "tag": "?tag"}, Target: "got"}}}},
			"got":   {Action: act, Branches: &core.Branches{Type: "bindings", Branches: []*core.Branch{{Target: "start"}}}},
		},
	}
	if err := s.Compile(context.Background(), nil, true); err != nil {
		panic(err)
	}
	return s
}

// routing targets
const (
	toAbsent = iota
	toA
	toB
	toStar
	toUnknown
	toListAB
	toListAA
	toListMixed // ["a", 5, "zz"]
	toTimers
	toCaptain
	toListEmpty      // []
	toListNonStrings // [5, null]
	toKinds
)

func withTo(m map[string]interface{}, kind int) map[string]interface{} {
	switch kind {
	case toA:
		m["to"] = "a"
	case toB:
		m["to"] = "b"
	case toStar:
		m["to"] = "*"
	case toUnknown:
		m["to"] = "zz"
	case toListAB:
		m["to"] = []interface{}{"a", "b"}
	case toListAA:
		m["to"] = []interface{}{"a", "a"}
	case toListMixed:
		m["to"] = []interface{}{"a", 5.0, "zz"}
	case toListEmpty:
		m["to"] = []interface{}{}
	case toListNonStrings:
		m["to"] = []interface{}{5.0, nil}
	case toTimers:
		m["to"] = TimersMachine
	case toCaptain:
		m["to"] = CaptainMachine
	}
	return m
}

// recipients: the machines a message with that target is addressed to (each once).
func recipients(kind int, have map[string]bool) []string {
	var r []string
	add := func(id string) {
		if !have[id] {
			return
		}
		for _, x := range r {
			if x == id {
				return
			}
		}
		r = append(r, id)
	}
	switch kind {
	case toAbsent, toStar:
		add("a")
		add("b")
	case toA, toListAA, toListMixed:
		add("a")
	case toB:
		add("b")
	case toListAB:
		add("a")
		add("b")
	case toTimers:
		add(TimersMachine)
	case toCaptain:
		add(CaptainMachine)
	}
	return r
}

type emission struct {
	from string
	tag  string
	to   int
}

func countReceipts(log *c14Log, machine, tag string) int {
	n := 0
	for _, r := range log.receipts {
		if r.machine == machine && r.tag == tag {
			n++
		}
	}
	return n
}

func firstReceipt(log *c14Log, tag string) int {
	for i, r := range log.receipts {
		if r.tag == tag {
			return i
		}
	}
	return -1
}

// VerifC14Sio: routing in the single-loop crew.
func VerifC14Sio() {
	// the order in which machines see a message within a round is unspecified: every order of the crew's
	// machine map is explored; the matcher's and the compiler's own map loops are C03's / C07's subject
	// (GetChanged builds maps from maps; VerifSioOrderLemmas shows its result does not depend on the order)
	verif.ExploreMapOrderIn("(*github.com/Comcast/sheens/sio.Crew).allMachines",
		"(*github.com/Comcast/sheens/sio.Crew).RunMachines", "(*github.com/Comcast/sheens/sio.Crew).ProcessMsg")
	log := &c14Log{}
	ids := []string{"a", "b", TimersMachine, CaptainMachine}
	have := map[string]bool{"a": true, TimersMachine: true, CaptainMachine: true}
	if verif.Choose("haveB", 2) == 1 {
		have["b"] = true
	}
	// slice 0 (routing): at most one emission per machine, every target form for the submitted message and
	// for a's emission; slice 1 (ordering): a emits two messages, everything goes to everybody
	slice := verif.Choose("slice", 2)
	thorough := verif.Tier() > 0
	if slice == 0 {
		// which machine goes first does not matter for "exactly once": machine orders are explored in the
		// ordering slice, where the crew holds the ordinary machines only (the service machines are skipped
		// by allMachines but would multiply the orders of its loop by 12)
		verif.MapOrderInsertion(true)
	} else {
		delete(have, TimersMachine)
		delete(have, CaptainMachine)
	}
	all := []int{toAbsent, toA, toB, toStar, toUnknown, toListAB, toListAA, toListMixed, toTimers, toCaptain, toListEmpty, toListNonStrings}
	var ems []emission
	emitsOf := map[string][]interface{}{}
	for _, id := range []string{"a", "b"} {
		if !have[id] {
			continue
		}
		min, max := 0, 1
		choices := all
		switch {
		case slice == 1 && id == "a":
			min, max = 2, 2
			choices = []int{toAbsent, toB, toListAA}
		case slice == 1:
			choices = []int{toAbsent}
		case id == "b" && !thorough:
			choices = []int{toAbsent, toA, toCaptain}
		case thorough && id == "a":
			max = 2
		}
		n := min + verif.Choose(id+".emits", max-min+1)
		for i := 0; i < n; i++ {
			tag := id + string(rune('0'+i))
			to := choices[verif.Choose(tag+".to", len(choices))]
			ems = append(ems, emission{from: id, tag: tag, to: to})
			emitsOf[id] = append(emitsOf[id], withTo(map[string]interface{}{"k": 2.0, "tag": tag}, to))
		}
	}
	c := &Crew{Conf: &CrewConf{Id: "c14", Ctl: &core.Control{Limit: 10}}, Machines: map[string]*crew.Machine{},
		changed: map[string]*Changed{}, previous: map[string]string{}}
	for _, id := range ids {
		if have[id] {
			c.Machines[id] = &crew.Machine{Id: id, Specter: recorderSpec(id, log, emitsOf[id]), State: &core.State{NodeName: "start", Bs: match.NewBindings()}}
		}
	}
	tops := all
	if slice == 1 {
		tops = []int{toAbsent, toListAB}
	}
	top := tops[verif.Choose("top.to", len(tops))]
	msg := withTo(map[string]interface{}{"k": 1.0, "tag": "top"}, top)

	var r *Result
	var err error
	panicked := true
	func() {
		defer func() { recover() }()
		r, err = c.ProcessMsg(context.Background(), msg)
		panicked = false
	}()
	verif.Assert("process-does-not-panic", !panicked)
	verif.Assert("process-succeeds", err == nil && r != nil)
	if r == nil {
		return
	}
	if verif.Known("C14-dup-recipient") {
		dup := top == toListAA
		for _, e := range ems {
			if e.to == toListAA {
				dup = true
			}
		}
		verif.Assume(!dup)
	}
	// (1) the submitted message: exactly once to each addressed machine, never to another
	topRecips := recipients(top, have)
	for _, id := range ids {
		want := 0
		for _, x := range topRecips {
			if x == id {
				want = 1
			}
		}
		verif.Assert("top-message-exactly-once-per-addressed-machine", countReceipts(log, id, "top") == want)
	}
	// (2) emitted messages are fed back: each exactly once to each machine it addresses
	var fed []emission
	for _, e := range ems {
		emitted := false
		for _, x := range topRecips {
			if x == e.from {
				emitted = true
			}
		}
		if emitted {
			fed = append(fed, e)
		}
		er := recipients(e.to, have)
		for _, id := range ids {
			want := 0
			if emitted {
				for _, x := range er {
					if x == id {
						want = 1
					}
				}
			}
			verif.Assert("emitted-message-exactly-once-per-addressed-machine", countReceipts(log, id, e.tag) == want)
		}
	}
	// (3) breadth first: the top message reaches everybody before any re-injected message is processed, and
	// a machine's emissions are processed in the order it emitted them
	lastTop := -1
	for i, rc := range log.receipts {
		if rc.tag == "top" {
			lastTop = i
		}
	}
	for _, e := range fed {
		if p := firstReceipt(log, e.tag); p >= 0 {
			verif.Assert("breadth-first", p > lastTop)
		}
	}
	for i := range fed {
		for j := i + 1; j < len(fed); j++ {
			if fed[i].from == fed[j].from {
				pi, pj := firstReceipt(log, fed[i].tag), firstReceipt(log, fed[j].tag)
				if pi >= 0 && pj >= 0 {
					verif.Assert("emission-order-kept", pi < pj)
				}
			}
		}
	}
	// (4) every emitted message is reported exactly once
	reported := map[string]int{}
	total := 0
	for _, batch := range r.Emitted {
		for _, m := range batch {
			if mm, is := m.(map[string]interface{}); is {
				if t, is := mm["tag"].(string); is {
					reported[t]++
					total++
				}
			}
		}
	}
	verif.Assert("reported-emission-count", total == len(fed))
	for _, e := range fed {
		verif.Assert("each-emission-reported-once", reported[e.tag] == 1)
	}
	verif.Reach("end")
}

// VerifSioOrderLemmas: GetChanged (two loops over maps, building maps) yields the same report and the same
// suppression cache whatever the iteration order: every order is explored here and compared with the
// insertion-order run, so that the other crew harnesses may iterate it in insertion order only.
func VerifSioOrderLemmas() {
	var kinds [3]int
	for i := range kinds {
		kinds[i] = verif.Choose("kind"+string(rune('0'+i)), 4)
	}
	repeat := verif.Choose("repeat", 2) == 1
	ids := []string{"a", "b", CaptainMachine}
	mk := func() *Crew {
		c := &Crew{Conf: &CrewConf{Id: "lemma"}, Machines: map[string]*crew.Machine{}, changed: map[string]*Changed{}, previous: map[string]string{}}
		for i, id := range ids {
			switch kinds[i] {
			case 1:
				c.changed[id] = &Changed{State: &core.State{NodeName: "n" + id, Bs: match.Bindings{"x": float64(i)}}}
			case 2:
				c.changed[id] = &Changed{Deleted: true}
			case 3:
				c.changed[id] = &Changed{SpecSrc: &crew.SpecSource{Name: "s" + id}, State: &core.State{NodeName: "start", Bs: match.NewBindings()}}
			}
		}
		if kinds[0] == 1 && repeat {
			// the same change was reported before: it is suppressed
			js, _ := json.Marshal(&Changed{State: c.changed["a"].State.Copy()})
			c.previous["a"] = string(js)
		}
		return c
	}
	ctx := context.Background()
	c1, c2 := mk(), mk()
	verif.MapOrderInsertion(true)
	r1, e1 := c1.GetChanged(ctx)
	verif.MapOrderInsertion(false)
	verif.NoOrderLemma(true)
	r2, e2 := c2.GetChanged(ctx)
	verif.Assert("GetChanged-order-insensitive-error", (e1 == nil) == (e2 == nil))
	verif.Assert("GetChanged-order-insensitive-size", len(r1) == len(r2))
	for _, id := range ids {
		x, h1 := r1[id]
		y, h2 := r2[id]
		verif.Assert("GetChanged-order-insensitive-keys", h1 == h2)
		if h1 && h2 {
			verif.Assert("GetChanged-order-insensitive-deleted", x.Deleted == y.Deleted)
			verif.Assert("GetChanged-order-insensitive-state", (x.State == nil) == (y.State == nil))
			verif.Assert("GetChanged-order-insensitive-spec", (x.SpecSrc == nil) == (y.SpecSrc == nil))
		}
		p1, hp1 := c1.previous[id]
		p2, hp2 := c2.previous[id]
		verif.Assert("GetChanged-order-insensitive-cache", hp1 == hp2 && p1 == p2)
	}
	verif.Assert("GetChanged-clears-cache", len(c1.changed) == 0 && len(c2.changed) == 0)
	verif.Reach("end")
}
