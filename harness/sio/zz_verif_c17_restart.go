//go:build verif

package sio

import (
	"context"
	"encoding/json"
	"time"

	"github.com/Comcast/sheens/core"
	"github.com/Comcast/sheens/crew"
	"github.com/Comcast/sheens/zzverif/verif"
)

func c17Crew(id string) *Crew {
	return &Crew{Conf: &CrewConf{Id: id, Ctl: &core.Control{Limit: 10}}, Machines: map[string]*crew.Machine{},
		changed: map[string]*Changed{}, previous: map[string]string{}}
}

// VerifC17SioRestart: timers persisted in crew state resume after a restart.  One or two timers are made
// in a first crew; at a chosen moment (before or after the short timer is due) the timers machine's state
// is serialised exactly as a host would store it (json.Marshal of Timers.State()), the first crew is shut
// down, and a second crew restores the timers from the decoded state through the crew's own restore path
// (Timers.withMap + Timers.Start, what SetMachine("timers", nil, state) does).  Obligations: a timer that
// was pending when the state was saved fires in the second crew, exactly once and not before its due time
// (unless it is cancelled there first, then never); a timer that had fired before the save is not in the
// saved state and does not fire again; nothing of the first crew fires after its shutdown.
func VerifC17SioRestart() {
	type firing struct {
		crew int
		id   string
		at   time.Time
	}
	var fired []firing
	mk := func(n int) (*Timers, context.Context, context.CancelFunc) {
		c := c17Crew("c17r")
		ctx, cancel := context.WithCancel(context.Background())
		ts := NewTimers(func(ctx context.Context, te *TimerEntry) {
			fired = append(fired, firing{n, te.Id, time.Now().UTC()})
		})
		ts.c = c
		c.timers = ts
		return ts, ctx, cancel
	}
	ts1, ctx1, cancel1 := mk(1)
	due := map[string]time.Time{}
	d1 := []time.Duration{c17Short, c17Long}[verif.Choose("t1.delay", 2)]
	due["t1"] = time.Now().UTC().Add(d1)
	verif.Assert("add-accepted", ts1.Add(ctx1, "t1", map[string]interface{}{"m": "one"}, d1) == nil)
	if verif.Choose("second", 2) == 1 {
		due["t2"] = time.Now().UTC().Add(c17Long)
		verif.Assert("add-accepted", ts1.Add(ctx1, "t2", "two", c17Long) == nil)
	}
	if verif.Choose("pause", 2) == 1 {
		time.Sleep(100 * time.Millisecond) // the short timer fires before the save
	}

	// save: what the host writes (the timers machine's state)
	ts1.Lock()
	js, err := json.Marshal(ts1.State())
	pendingAtSave := map[string]bool{}
	for id := range ts1.Map {
		pendingAtSave[id] = true
	}
	ts1.Unlock()
	verif.Assert("state-serialisable", err == nil)
	savedAt := time.Now().UTC()
	firedBefore := map[string]int{}
	for _, f := range fired {
		firedBefore[f.id]++
	}
	// shut the first crew down
	cancel1()
	time.Sleep(10 * time.Millisecond)

	// restart: decode the stored state and restore the timers from it
	var st core.State
	verif.Assert("state-decodable", json.Unmarshal(js, &st) == nil)
	ts2, ctx2, cancel2 := mk(2)
	raw, have := st.Bs["timers"]
	verif.Assert("saved-state-has-timers", have)
	verif.Assert("restore-accepted", ts2.withMap(raw) == nil)
	ts2.c.Machines[TimersMachine] = &crew.Machine{Id: TimersMachine, State: &core.State{NodeName: "start", Bs: st.Bs}}
	verif.Assert("restore-started", ts2.Start(ctx2) == nil)
	ts2.Lock()
	for _, id := range []string{"t1", "t2"} {
		_, listed := ts2.Map[id]
		verif.Assert("restored-map-equals-pending-at-save", listed == pendingAtSave[id])
	}
	ts2.Unlock()

	// optionally cancel a restored timer before it is due
	cancelled := ""
	if verif.Choose("cancel", 2) == 1 {
		id := []string{"t1", "t2"}[verif.Choose("cancel.id", 2)]
		cerr := ts2.Cancel(ctx2, id)
		verif.Assert("restored-timer-cancellable", (cerr == nil) == pendingAtSave[id])
		if cerr == nil {
			cancelled = id
		}
	}
	time.Sleep(600 * time.Millisecond)

	count2 := map[string]int{}
	for _, f := range fired {
		if f.crew == 1 {
			verif.Assert("first-crew-silent-after-shutdown", !f.at.After(savedAt))
			continue
		}
		count2[f.id]++
		verif.Assert("restored-timer-never-early", !f.at.Before(due[f.id]))
	}
	for _, id := range []string{"t1", "t2"} {
		switch {
		case pendingAtSave[id] && id != cancelled:
			verif.Assert("restored-timer-fires-exactly-once", count2[id] == 1)
		default:
			verif.Assert("not-pending-or-cancelled-never-fires", count2[id] == 0)
		}
		verif.Assert("fired-before-save-implies-not-saved", !(firedBefore[id] > 0 && pendingAtSave[id]))
	}
	verif.Reach("restart-done")
	cancel2()
	time.Sleep(10 * time.Millisecond)
	verif.Assert("no-goroutine-left-after-cancel", verif.Quiesce() == 0)
	c17Races()
}
