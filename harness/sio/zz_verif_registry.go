//go:build verif

package sio

var verifHarnesses = map[string]func(){
	"VerifC14Sio":         VerifC14Sio,
	"VerifC15":            VerifC15,
	"VerifSioOrderLemmas": VerifSioOrderLemmas,
}
