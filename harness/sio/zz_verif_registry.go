//go:build verif

package sio

var verifHarnesses = map[string]func(){
	"VerifC14Sio":         VerifC14Sio,
	"VerifSioOrderLemmas": VerifSioOrderLemmas,
}
