//go:build verif

package sio

var verifHarnesses = map[string]func(){
	"VerifC14Sio":         VerifC14Sio,
	"VerifC14Captain":     VerifC14Captain,
	"VerifC14Targets":     VerifC14Targets,
	"VerifC14Long":        VerifC14Long,
	"VerifC15":            VerifC15,
	"VerifC15Long":        VerifC15Long,
	"VerifC17Sio":         VerifC17Sio,
	"VerifC17SioRestart":  VerifC17SioRestart,
	"VerifC17SioTime":     VerifC17SioTime,
	"VerifC17SioCrew":     VerifC17SioCrew,
	"VerifSioOrderLemmas": VerifSioOrderLemmas,
}
