//go:build verif

package sio

import (
	"context"
	"encoding/json"
	"strconv"

	"github.com/Comcast/sheens/core"
	"github.com/Comcast/sheens/crew"
	"github.com/Comcast/sheens/match"
	"github.com/Comcast/sheens/zzverif/verif"
)

// chainSpec: a machine that, for a message {"k":1,"n":i,"tag":t}, records the receipt and - while i is below
// the limit - emits {"k":1,"n":i+1,"tag":"c<i+1>","to":<next>}: a cascade of `limit` re-injections within
// ONE ProcessMsg call.
func chainSpec(id string, log *c14Log, limit int, next string) *core.Spec {
	act := &core.FuncAction{F: func(ctx context.Context, bs match.Bindings, props core.StepProps) (*core.Execution, error) {
		tag, _ := bs["?tag"].(string)
		log.receipts = append(log.receipts, receipt{machine: id, tag: tag})
		exe := core.NewExecution(match.NewBindings())
		if n, is := bs["?n"].(float64); is && int(n) < limit {
			exe.AddEmitted(map[string]interface{}{"k": 1.0, "n": n + 1, "tag": "c" + strconv.Itoa(int(n)+1), "to": next})
		}
		return exe, nil
	}}
	s := &core.Spec{
		Name: "chain-" + id,
		Nodes: map[string]*core.Node{
			"start": {Branches: &core.Branches{Type: "message", Branches: []*core.Branch{{Pattern: map[string]interface{}{"k": 1.0, "n": "?n", "tag": "?tag"}, Target: "got"}}}},
			"got":   {Action: act, Branches: &core.Branches{Type: "bindings", Branches: []*core.Branch{{Target: "start"}}}},
		},
	}
	if err := s.Compile(context.Background(), nil, true); err != nil {
		panic(err)
	}
	return s
}

// VerifC14Long: long cascades inside one ProcessMsg call (beyond any small internal buffer): a chain of
// N re-injections (machine a -> b -> a -> ...), or one action emitting N messages to another machine.
// Every emitted message is processed exactly once by its addressee, in emission order, and reported once.
func VerifC14Long() {
	verif.MapOrderInsertion(true)
	n := []int{33, 40, 70}[verif.Choose("length", 3)]
	log := &c14Log{}
	c := &Crew{Conf: &CrewConf{Id: "c14l", Ctl: &core.Control{Limit: 10}}, Machines: map[string]*crew.Machine{},
		changed: map[string]*Changed{}, previous: map[string]string{}}
	wide := verif.Choose("shape", 2) == 1
	var msg map[string]interface{}
	if wide {
		var emits []interface{}
		for i := 0; i < n; i++ {
			emits = append(emits, map[string]interface{}{"k": 2.0, "tag": "e" + strconv.Itoa(i), "to": "b"})
		}
		c.Machines["a"] = &crew.Machine{Id: "a", Specter: recorderSpec("a", log, emits), State: &core.State{NodeName: "start", Bs: match.NewBindings()}}
		c.Machines["b"] = &crew.Machine{Id: "b", Specter: recorderSpec("b", log, nil), State: &core.State{NodeName: "start", Bs: match.NewBindings()}}
		msg = map[string]interface{}{"k": 1.0, "tag": "top", "to": "a"}
	} else {
		c.Machines["a"] = &crew.Machine{Id: "a", Specter: chainSpec("a", log, n, "b"), State: &core.State{NodeName: "start", Bs: match.NewBindings()}}
		c.Machines["b"] = &crew.Machine{Id: "b", Specter: chainSpec("b", log, n, "a"), State: &core.State{NodeName: "start", Bs: match.NewBindings()}}
		msg = map[string]interface{}{"k": 1.0, "n": 0.0, "tag": "c0", "to": "a"}
	}
	r, err := c.ProcessMsg(context.Background(), msg)
	verif.Assert("process-succeeds", err == nil && r != nil)
	if r == nil {
		return
	}
	if wide {
		verif.Assert("top-message-exactly-once", countReceipts(log, "a", "top") == 1)
		last := -1
		for i := 0; i < n; i++ {
			tag := "e" + strconv.Itoa(i)
			verif.Assert("emitted-message-exactly-once-per-addressed-machine", countReceipts(log, "b", tag) == 1 && countReceipts(log, "a", tag) == 0)
			p := firstReceipt(log, tag)
			verif.Assert("emission-order-kept", p > last)
			last = p
		}
	} else {
		for i := 0; i <= n; i++ {
			who, other := "a", "b"
			if i%2 == 1 {
				who, other = "b", "a"
			}
			tag := "c" + strconv.Itoa(i)
			verif.Assert("chained-message-exactly-once-per-addressed-machine", countReceipts(log, who, tag) == 1 && countReceipts(log, other, tag) == 0)
		}
	}
	// every emission is reported exactly once
	reported := 0
	for _, batch := range r.Emitted {
		reported += len(batch)
	}
	verif.Assert("each-emission-reported-once", reported == n)
	verif.Reach("long-done")
}

// VerifC14Captain: a crew that changes while a message is being processed: machine "a" emits a request to
// the captain that creates machine "x" (or deletes machine "b"), followed by a message addressed to that
// machine.  Emitted messages are processed in order, each by the crew as it is when its turn comes: the
// machine created by the first message receives the second exactly once; a machine deleted by the first
// never sees the second.
func VerifC14Captain() {
	verif.MapOrderInsertion(true)
	ctx := context.Background()
	log := &c14Log{}
	c := &Crew{Conf: &CrewConf{Id: "c14c", Ctl: &core.Control{Limit: 10}}, Machines: map[string]*crew.Machine{},
		changed: map[string]*Changed{}, previous: map[string]string{}}
	c.timers = NewTimers(func(ctx context.Context, te *TimerEntry) {})
	c.timers.c = c
	verif.Assert("captain-set-up", c.SetMachine(ctx, CaptainMachine, nil, nil) == nil)
	creates := verif.Choose("request", 2) == 0
	var emits []interface{}
	if creates {
		// the spec of the new machine, as the JSON a message carries
		js, err := json.Marshal(c15Spec("flip"))
		verif.Assert("spec-serialisable", err == nil)
		var inline interface{}
		verif.Assert("spec-decodable", json.Unmarshal(js, &inline) == nil)
		emits = []interface{}{
			map[string]interface{}{"to": CaptainMachine, "update": map[string]interface{}{"x": map[string]interface{}{"spec": map[string]interface{}{"inline": inline}}}},
			map[string]interface{}{"to": "x", "go": "now"},
		}
	} else {
		emits = []interface{}{
			map[string]interface{}{"to": CaptainMachine, "delete": []interface{}{"b"}},
			map[string]interface{}{"to": "b", "k": 2.0, "tag": "late"},
		}
	}
	c.Machines["a"] = &crew.Machine{Id: "a", Specter: recorderSpec("a", log, emits), State: &core.State{NodeName: "start", Bs: match.NewBindings()}}
	c.Machines["b"] = &crew.Machine{Id: "b", Specter: recorderSpec("b", log, nil), State: &core.State{NodeName: "start", Bs: match.NewBindings()}}
	r, err := c.ProcessMsg(ctx, map[string]interface{}{"to": "a", "k": 1.0, "tag": "top"})
	verif.Assert("process-succeeds", err == nil && r != nil)
	if r == nil {
		return
	}
	verif.Assert("top-message-exactly-once", countReceipts(log, "a", "top") == 1)
	if creates {
		x, have := c.Machines["x"]
		verif.Assert("requested-machine-exists", have && x != nil && x.State != nil)
		if have && x != nil && x.State != nil {
			// the new machine received the message addressed to it (once: it has moved exactly one node on)
			verif.Assert("message-to-the-new-machine-delivered", x.State.NodeName == "s2")
			verif.Assert("message-to-the-new-machine-bound", verif.JSONEqual(x.State.Bs["?x"], "now"))
		}
	} else {
		_, have := c.Machines["b"]
		verif.Assert("requested-machine-deleted", !have)
		verif.Assert("deleted-machine-sees-nothing-more", countReceipts(log, "b", "late") == 0)
	}
	reported := 0
	for _, batch := range r.Emitted {
		reported += len(batch)
	}
	verif.Assert("each-emission-reported-once", reported == 2)
	verif.Reach("captain-done")
}

// VerifC14Targets: the routing target as a solver variable: "to" is an arbitrary string, or a list of two
// arbitrary strings (which may be equal to each other, to a machine id, to a reserved name or to nothing);
// every machine - ordinary or service - receives the message exactly once iff it is named, never otherwise.
func VerifC14Targets() {
	verif.MapOrderInsertion(true)
	log := &c14Log{}
	ids := []string{"a", "b", TimersMachine, CaptainMachine}
	c := &Crew{Conf: &CrewConf{Id: "c14t", Ctl: &core.Control{Limit: 10}}, Machines: map[string]*crew.Machine{},
		changed: map[string]*Changed{}, previous: map[string]string{}}
	for _, id := range ids {
		c.Machines[id] = &crew.Machine{Id: id, Specter: recorderSpec(id, log, nil), State: &core.State{NodeName: "start", Bs: match.NewBindings()}}
	}
	s1 := verif.AnyString("to1")
	msg := map[string]interface{}{"k": 1.0, "tag": "top"}
	named := func(id string) bool { return s1 == id }
	if verif.Choose("form", 2) == 1 {
		s2 := verif.AnyString("to2")
		msg["to"] = []interface{}{s1, s2}
		named = func(id string) bool { return verif.Or(s1 == id, s2 == id) }
	} else {
		msg["to"] = s1
	}
	r, err := c.ProcessMsg(context.Background(), msg)
	verif.Assert("process-succeeds", err == nil && r != nil)
	for _, id := range ids {
		want := verif.IteInt(named(id), 1, 0)
		// "*" as the single string target addresses every ordinary machine
		if _, isList := msg["to"].([]interface{}); !isList && (id == "a" || id == "b") {
			want = verif.IteInt(verif.Or(named(id), s1 == "*"), 1, 0)
		}
		verif.Assert("symbolic-target-exactly-once-iff-named", countReceipts(log, id, "top") == want)
	}
	verif.Reach("targets-done")
}
