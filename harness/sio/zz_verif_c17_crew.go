//go:build verif

package sio

import (
	"context"
	"encoding/json"
	"time"

	"github.com/Comcast/sheens/core"
	"github.com/Comcast/sheens/zzverif/verif"
)

// c17TimerIds: the ids listed under the "timers" binding of a timers-machine state (whatever the Go type of
// that binding: the live map[string]*TimerEntry or a decoded map[string]interface{}).
func c17TimerIds(st *core.State) (map[string]bool, bool) {
	if st == nil {
		return nil, false
	}
	x, have := st.Bs["timers"]
	if !have {
		return nil, false
	}
	ids := map[string]bool{}
	switch m := x.(type) {
	case map[string]*TimerEntry:
		for id := range m {
			ids[id] = true
		}
	case map[string]interface{}:
		for id := range m {
			ids[id] = true
		}
	default:
		return nil, false
	}
	return ids, true
}

func c17SameIds(got map[string]bool, want map[string]bool) bool {
	for _, id := range []string{"t1", "t2", "t3"} {
		if got[id] != want[id] {
			return false
		}
	}
	return true
}

// VerifC17SioCrew: the timers MACHINE of a crew across a restart.  Timers are made by messages to the
// timers machine (the crew's own timers spec runs), the state the crew reports for that machine is written
// out as JSON, a second crew is given that state (SetMachine("timers", nil, state)), and further make /
// cancel messages are processed there.  After every request the timers machine's state and the change the
// crew reports list exactly the pending timers; a timer cancelled after the restart never fires, also not
// after a second restart from what the second crew reported; a restored timer fires once, not early.
func VerifC17SioCrew() {
	verif.MapOrderInsertion(true)
	type firing struct {
		crew int
		id   string
		at   time.Time
	}
	var fired []firing
	ctxOf := map[*Crew]context.Context{}
	mk := func(n int, st *core.State) (*Crew, context.CancelFunc) {
		c := c17Crew("c17c")
		ctx, cancel := context.WithCancel(context.Background())
		ts := NewTimers(func(ctx context.Context, te *TimerEntry) {
			id, _ := te.Msg.(string)
			fired = append(fired, firing{n, id, time.Now().UTC()})
		})
		ts.c = c
		c.timers = ts
		verif.Assert("timers-machine-set-up", c.SetMachine(ctx, TimersMachine, nil, st) == nil)
		ctxOf[c] = ctx
		return c, cancel
	}
	makeMsg := func(id, in string) interface{} {
		return map[string]interface{}{"to": TimersMachine, "makeTimer": map[string]interface{}{"id": id, "in": in, "msg": id}}
	}
	cancelMsg := func(id string) interface{} {
		return map[string]interface{}{"to": TimersMachine, "cancelTimer": id}
	}
	// request: process one message and compare what the crew holds and reports with the pending set
	var reported *core.State
	request := func(c *Crew, msg interface{}, pending map[string]bool) {
		r, err := c.ProcessMsg(ctxOf[c], msg) // (a timer lives as long as the context of the request that made it)
		verif.Assert("request-processed", err == nil && r != nil)
		if r == nil {
			return
		}
		ids, ok := c17TimerIds(c.Machines[TimersMachine].State)
		verif.Assert("timers-machine-state-lists-the-pending-timers", ok && c17SameIds(ids, pending))
		if ch := r.Changed[TimersMachine]; ch != nil && ch.State != nil {
			rids, rok := c17TimerIds(ch.State)
			verif.Assert("reported-change-lists-the-pending-timers", rok && c17SameIds(rids, pending))
			reported = ch.State
		}
	}
	persist := func(st *core.State) *core.State {
		js, err := json.Marshal(st)
		verif.Assert("reported-state-serialisable", err == nil)
		var back core.State
		verif.Assert("reported-state-decodable", json.Unmarshal(js, &back) == nil)
		return &back
	}

	// first life: make t1 (long) and perhaps t2 (longer)
	t0 := time.Now().UTC()
	c1, stop1 := mk(1, nil)
	pending := map[string]bool{"t1": true}
	request(c1, makeMsg("t1", "400ms"), pending)
	if verif.Choose("second", 2) == 1 {
		pending["t2"] = true
		request(c1, makeMsg("t2", "500ms"), pending)
	}
	verif.Assert("a-change-was-reported", reported != nil)
	if reported == nil {
		return
	}
	saved := persist(reported)
	stop1()
	time.Sleep(10 * time.Millisecond)

	// second life
	c2, stop2 := mk(2, saved)
	cancelled := ""
	switch verif.Choose("afterRestart", 4) {
	case 1:
		delete(pending, "t1")
		cancelled = "t1"
		request(c2, cancelMsg("t1"), pending)
	case 2:
		pending["t3"] = true
		request(c2, makeMsg("t3", "600ms"), pending)
	case 3:
		delete(pending, "t1")
		cancelled = "t1"
		request(c2, cancelMsg("t1"), pending)
		pending["t3"] = true
		request(c2, makeMsg("t3", "600ms"), pending)
	}
	last := 2
	if cancelled != "" && verif.Choose("secondRestart", 2) == 1 {
		// third life, from what the second crew reported
		saved2 := persist(reported)
		stop2()
		time.Sleep(10 * time.Millisecond)
		_, stop3 := mk(3, saved2)
		defer stop3()
		last = 3
	}
	time.Sleep(800 * time.Millisecond)

	due := map[string]time.Time{"t1": t0.Add(400 * time.Millisecond), "t2": t0.Add(500 * time.Millisecond), "t3": t0.Add(600 * time.Millisecond)}
	count := map[string]int{}
	for _, f := range fired {
		verif.Assert("only-the-living-crew-fires", f.crew == last)
		count[f.id]++
		verif.Assert("restored-timer-never-early", !f.at.Before(due[f.id]))
	}
	for _, id := range []string{"t1", "t2", "t3"} {
		if pending[id] {
			verif.Assert("pending-timer-fires-exactly-once", count[id] == 1)
		} else {
			verif.Assert("cancelled-or-never-made-timer-never-fires", count[id] == 0)
		}
	}
	verif.Reach("crew-restart-done")
	stop2()
	time.Sleep(10 * time.Millisecond)
	c17Races()
}
