//go:build verif

package sio

import (
	"context"

	"github.com/Comcast/sheens/core"
	"github.com/Comcast/sheens/crew"
	"github.com/Comcast/sheens/match"
	"github.com/Comcast/sheens/zzverif/verif"
)

// two inline specs without actions (an inline spec survives the JSON round trip inside ResolveSpecSource
// only with what is serialisable): both move on {"go": x} messages, binding what they saw
func c15Spec(name string) *core.Spec {
	other := "s1"
	if name == "flip" {
		other = "s2"
	}
	return &core.Spec{
		Name: name,
		Nodes: map[string]*core.Node{
			"start": {Branches: &core.Branches{Type: "message", Branches: []*core.Branch{{Pattern: map[string]interface{}{"go": "?x"}, Target: other}}}},
			other:   {Branches: &core.Branches{Type: "message", Branches: []*core.Branch{{Pattern: map[string]interface{}{"go": "?y"}, Target: "start"}}}},
		},
	}
}

func c15Source(which int) *crew.SpecSource {
	switch which {
	case 0:
		return &crew.SpecSource{Name: "flip", Inline: c15Spec("flip")}
	default:
		return &crew.SpecSource{Name: "flop", Inline: c15Spec("flop")}
	}
}

func c15State(tag string, first bool) *core.State {
	n := 3
	if first {
		n = 2 // the first round only needs "some state" or the default one
	}
	switch verif.Choose(tag+".state", n) {
	case 0:
		return nil // the default state
	case 1:
		return &core.State{NodeName: "start", Bs: match.Bindings{"n": 1.0}}
	}
	return &core.State{NodeName: "start", Bs: match.Bindings(verif.AnyMap(tag+".bs", verif.Opts{Depth: 1, Width: 1, Pool: []string{"k"}, ValPool: []string{"v"}, Leaf: verif.TStr | verif.TF64, Finite: true, NoVar: true}))}
}

// store: the reference consumer of sio/stdio.go: folds every reported change into its map
type c15Store map[string]*crew.Machine

func (s c15Store) fold(changed map[string]*Changed) {
	for _, mid := range changedKeys(changed) {
		m := changed[mid]
		if m.Deleted {
			delete(s, mid)
			continue
		}
		n, have := s[mid]
		if !have {
			n = &crew.Machine{}
			s[mid] = n
		}
		if m.State != nil {
			n.State = m.State.Copy()
		}
		if m.SpecSrc != nil {
			n.SpecSource = m.SpecSrc.Copy()
		}
	}
}

func changedKeys(m map[string]*Changed) []string {
	var ks []string
	for _, id := range []string{"a", "b", TimersMachine, CaptainMachine} {
		if _, have := m[id]; have {
			ks = append(ks, id)
		}
	}
	return ks
}

// storeEqualsCrew: every ordinary machine of the crew is in the store with the same node, bindings and spec
// source, and the store holds nothing else.
func storeEqualsCrew(s c15Store, c *Crew) {
	for _, mid := range []string{"a", "b"} {
		live, alive := c.Machines[mid]
		rec, stored := s[mid]
		verif.Assert("stored-iff-alive", alive == stored)
		if !alive || !stored {
			continue
		}
		// a record without state stands for the default state (that is what SetMachine makes of it on boot)
		recState := rec.State
		if recState == nil {
			recState = &core.State{NodeName: "start", Bs: match.NewBindings()}
		}
		if live.State != nil {
			verif.Assert("stored-node-equals-live", recState.NodeName == live.State.NodeName)
			verif.Assert("stored-bindings-equal-live", verif.JSONEqual(map[string]interface{}(recState.Bs), map[string]interface{}(live.State.Bs)))
		}
		if live.SpecSource != nil {
			verif.Assert("stored-spec-source-equals-live", rec.SpecSource != nil && rec.SpecSource.Name == live.SpecSource.Name)
		}
	}
}

// one crew operation drawn symbolically
func c15Op(ctx context.Context, c *Crew, tag string, first bool) {
	which := verif.Choose(tag+".mid", 2)
	mid := []string{"a", "b"}[which]
	if first {
		// the first round creates machines: a runs "flip", b runs "flop"
		c.SetMachine(ctx, mid, c15Source(which), c15State(tag, true))
		return
	}
	switch verif.Choose(tag+".op", 4) {
	case 0: // create or replace both
		c.SetMachine(ctx, mid, c15Source(verif.Choose(tag+".src", 2)), c15State(tag, false))
	case 1: // replace the state only
		st := c15State(tag, false)
		if st != nil {
			c.SetMachine(ctx, mid, nil, st)
		}
	case 2: // replace the spec only
		if _, have := c.Machines[mid]; have {
			c.SetMachine(ctx, mid, c15Source(verif.Choose(tag+".src", 2)), nil)
		}
	case 3: // delete
		c.DeleteMachine(ctx, mid)
	}
}

// VerifC15: after every processed message the reported changes, folded in order into a store, equal the
// live crew; histories of two rounds of up to two operations each followed by a message.
func VerifC15() {
	verif.MapOrderInsertion(true)
	ctx := context.Background()
	c := &Crew{Conf: &CrewConf{Id: "c15", Ctl: &core.Control{Limit: 10}}, Machines: map[string]*crew.Machine{},
		changed: map[string]*Changed{}, previous: map[string]string{}}
	store := c15Store{}
	rounds := 2
	for r := 0; r < rounds; r++ {
		rt := "r" + string(rune('0'+r))
		nops := 1 + verif.Choose(rt+".nops", 2)
		for i := 0; i < nops; i++ {
			c15Op(ctx, c, rt+".op"+string(rune('0'+i)), r == 0)
		}
		var msg interface{} = map[string]interface{}{"go": "x" + rt}
		if verif.Choose(rt+".msg", 2) == 1 {
			msg = map[string]interface{}{"other": 1.0} // a message nobody reacts to
		}
		res, err := c.ProcessMsg(ctx, msg)
		verif.Assert("process-succeeds", err == nil && res != nil)
		if res == nil {
			return
		}
		store.fold(res.Changed)
		storeEqualsCrew(store, c)
	}
	verif.Reach("end")
}

// VerifC15Long: longer histories of one machine: four rounds, each an optional operation (replace the
// spec - or create the machine again after a deletion -, replace the state, delete) followed by a message that flips the machine between its two nodes - so that a
// state it was in two or three reports ago comes back (what the suppression of repeated reports could
// confuse).
func VerifC15Long() {
	verif.MapOrderInsertion(true)
	ctx := context.Background()
	c := &Crew{Conf: &CrewConf{Id: "c15", Ctl: &core.Control{Limit: 10}}, Machines: map[string]*crew.Machine{},
		changed: map[string]*Changed{}, previous: map[string]string{}}
	store := c15Store{}
	c.SetMachine(ctx, "a", c15Source(0), nil)
	rounds := 4
	if verif.Tier() > 0 {
		rounds = 5
	}
	for r := 0; r < rounds; r++ {
		rt := "r" + string(rune('0'+r))
		switch verif.Choose(rt+".op", 4) {
		case 1:
			// the same spec again (a "replacement" all the same); creates the machine anew if it was deleted -
			// with exactly the record it was first reported with
			c.SetMachine(ctx, "a", c15Source(0), nil)
		case 2:
			if _, have := c.Machines["a"]; have {
				c.SetMachine(ctx, "a", nil, &core.State{NodeName: "start", Bs: match.NewBindings()})
			}
		case 3:
			if _, have := c.Machines["a"]; have {
				c.DeleteMachine(ctx, "a")
			}
		}
		var msg interface{} = map[string]interface{}{"go": "x"}
		if verif.Choose(rt+".msg", 2) == 1 {
			msg = map[string]interface{}{"other": 1.0}
		}
		res, err := c.ProcessMsg(ctx, msg)
		verif.Assert("process-succeeds", err == nil && res != nil)
		if res == nil {
			return
		}
		store.fold(res.Changed)
		storeEqualsCrew(store, c)
	}
	verif.Reach("end")
}
