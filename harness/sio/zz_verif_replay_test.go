//go:build verif

package sio

import (
	"testing"

	"github.com/Comcast/sheens/zzverif/verif"
)

func TestVerifReplay(t *testing.T) {
	verif.RunReplay(t, verifHarnesses)
}
