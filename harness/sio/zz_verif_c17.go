//go:build verif

package sio

import (
	"bytes"
	"context"
	"log"
	"os"
	"strings"
	"sync"
	"time"

	"github.com/Comcast/sheens/core"
	"github.com/Comcast/sheens/crew"
	"github.com/Comcast/sheens/zzverif/verif"
)

const (
	c17Short = 20 * time.Millisecond
	c17Long  = 400 * time.Millisecond
)

// c17ev: one observable event of a timers scenario, in the order in which they were observed: a make or
// cancel request that returned (with its outcome), or a firing (the emitter was called).
type c17ev struct {
	kind string // "add", "rem", "fire"
	id   string
	ok   bool
	due  time.Time // add: when the timer is due
	at   time.Time
}

type c17log struct {
	sync.Mutex
	evs []c17ev
}

func (l *c17log) add(e c17ev) {
	l.Lock()
	e.at = time.Now().UTC()
	l.evs = append(l.evs, e)
	l.Unlock()
}

// c17inst: one accepted timer.
type c17inst struct {
	id               string
	due              time.Time
	fired, cancelled bool
	inFlight         bool // replaced at or after its due time: it may or may not still fire
}

// c17Check replays the event log against the statement: every firing belongs to an accepted timer of that
// id that was due, had not been cancelled and had not fired; a successful cancel removes the pending timer
// of that id (the newest one: an older one may already have expired and be about to emit).  replaces: a
// make request under a pending id replaces (cancels) the pending timer (sio) instead of being refused.
// Returns the timers still pending at the end.
func c17Check(evs []c17ev, replaces bool) []*c17inst {
	var insts []*c17inst
	newest := func(id string) *c17inst {
		for i := len(insts) - 1; i >= 0; i-- {
			if t := insts[i]; t.id == id && !t.fired && !t.cancelled && !t.inFlight {
				return t
			}
		}
		return nil
	}
	for _, e := range evs {
		switch {
		case e.kind == "add" && e.ok:
			if replaces {
				if old := newest(e.id); old != nil {
					if old.due.After(e.at) {
						old.cancelled = true // replaced while pending: never fires
					} else {
						old.inFlight = true // replaced at the moment it expired
					}
				}
			}
			insts = append(insts, &c17inst{id: e.id, due: e.due})
		case e.kind == "rem" && e.ok:
			t := newest(e.id)
			verif.Assert("cancel-succeeds-only-for-a-pending-timer", t != nil)
			if t != nil {
				t.cancelled = true
			}
		case e.kind == "fire":
			// a timer that is due and still pending first; else one that was replaced just as it expired
			matched := false
			for _, inFlight := range []bool{false, true} {
				for _, t := range insts { // oldest first
					if !matched && t.inFlight == inFlight && t.id == e.id && !t.fired && !t.cancelled && !e.at.Before(t.due) {
						t.fired, matched = true, true
					}
				}
			}
			verif.Assert("each-firing-is-a-live-due-timer-firing-once", matched)
		}
	}
	var pending []*c17inst
	for _, t := range insts {
		if !t.fired && !t.cancelled && !t.inFlight {
			pending = append(pending, t)
		}
	}
	return pending
}

// c17SlowLog: see cmd/mcrew's harness: natively the crew's own verbose log line between a timer's expiry
// and its bookkeeping is sent through a slow writer, which widens that window for replays.
type c17SlowLog struct{}

func (c17SlowLog) Write(p []byte) (int, error) {
	if bytes.Contains(p, []byte("Firing timer")) {
		time.Sleep(4 * time.Millisecond)
	}
	return len(p), nil
}

// VerifC17Sio: the single-loop crew's timers: at most once, never early, cancel wins, an accepted timer
// that is not cancelled fires, the id is free from the moment the timer fires (also for the handler), a
// timer re-created by the handler stays in the map, the published map equals the pending timers.
func VerifC17Sio() {
	c := &Crew{Conf: &CrewConf{Id: "c17", Ctl: &core.Control{Limit: 10}}, Machines: map[string]*crew.Machine{},
		changed: map[string]*Changed{}, previous: map[string]string{}}
	if !verif.Symbolic() {
		c.Verbose = true
		log.SetOutput(c17SlowLog{})
		defer log.SetOutput(os.Stderr)
	}
	lg := &c17log{}
	ctx, cancel := context.WithCancel(context.Background())
	defer cancel()
	var ts *Timers
	doAdd := func(id string, d time.Duration) error {
		due := time.Now().UTC().Add(d)
		err := ts.Add(ctx, id, id, d)
		lg.add(c17ev{kind: "add", id: id, ok: err == nil, due: due})
		return err
	}
	doCancel := func(id string) error {
		err := ts.Cancel(ctx, id)
		lg.add(c17ev{kind: "rem", id: id, ok: err == nil})
		return err
	}
	handlerMode := verif.Choose("handler", 3)
	handlerDone := false
	var handlerAddErr error
	emitter := func(ctx context.Context, te *TimerEntry) {
		lg.add(c17ev{kind: "fire", id: te.Id})
		if te.Id == "t1" && !handlerDone {
			handlerDone = true
			switch handlerMode {
			case 1: // the handler makes a new timer under the id that is firing
				handlerAddErr = doAdd("t1", c17Long)
			case 2: // ... or under another id
				handlerAddErr = doAdd("t2", c17Long)
			}
		}
	}
	ts = NewTimers(emitter)
	ts.c = c
	c.timers = ts

	nreq := 1 + verif.Choose("nreq", 3)
	for i := 0; i < nreq; i++ {
		tag := "req" + string(rune('0'+i))
		id := []string{"t1", "t2"}[verif.Choose(tag+".id", 2)]
		if i == 0 || verif.Choose(tag+".kind", 2) == 0 {
			verif.Assert("make-request-accepted", doAdd(id, []time.Duration{c17Short, c17Long}[verif.Choose(tag+".delay", 2)]) == nil)
		} else {
			doCancel(id)
		}
		if i == nreq-1 {
			break // a pause after the last request only delays the end of the scenario
		}
		switch verif.Choose(tag+".pause", 3) {
		case 1:
			time.Sleep(100 * time.Millisecond)
		case 2:
			// exactly as long as a short timer takes: the next request lands at the very moment such a timer
			// expires (the scheduler explores both orders of the tie)
			time.Sleep(c17Short)
		}
	}
	// (170 ms: no sum of the pauses above plus this wait equals a due time, so the scenario never ends at the
	// very moment a timer expires)
	time.Sleep(170 * time.Millisecond)

	lg.Lock()
	evs := append([]c17ev(nil), lg.evs...)
	lg.Unlock()
	pending := c17Check(evs, true)
	now := time.Now().UTC()
	for _, t := range pending {
		verif.Assert("accepted-timer-fires", t.due.After(now.Add(-50*time.Millisecond)))
	}
	if handlerDone && handlerMode != 0 {
		verif.Assert("id-reusable-from-the-handler", handlerAddErr == nil)
	}
	// the published map lists exactly the pending timers, and each of them is still cancellable
	want := map[string]bool{}
	unsettled := map[string]bool{} // a timer of that id expires within 30 ms of now: natively it may be in flight
	for _, t := range pending {
		want[t.id] = true
		if d := t.due.Sub(now); d < 30*time.Millisecond && d > -30*time.Millisecond {
			unsettled[t.id] = true
		}
	}
	for _, id := range []string{"t1", "t2"} {
		ts.Lock()
		_, listed := ts.Map[id]
		ts.Unlock()
		verif.Assert("map-equals-pending-timers", unsettled[id] || listed == want[id])
	}
	for _, id := range []string{"t1", "t2"} {
		if want[id] && !unsettled[id] {
			verif.Assert("pending-timer-cancellable", ts.Cancel(ctx, id) == nil)
		}
	}
	verif.Reach("end")
	cancel()
	time.Sleep(10 * time.Millisecond)
	verif.Assert("no-goroutine-left-after-cancel", verif.Quiesce() == 0)
	c17Races()
}

// c17Races: timer activity never corrupts crew state: no two accesses of the code under test to the same
// memory, one of them a write, are unordered by happens-before (what the race detector would report).
func c17Races() {
	for _, r := range verif.RaceReports() {
		if verif.Known("C17-sio-changed-unlocked") && c17KnownRace(r) {
			continue
		}
		verif.Note("race: " + r)
		verif.Assert("no-data-race", false)
	}
}

// c17KnownRace: both accesses belong to the crew's change bookkeeping (Crew.changed and its Changed
// records): the timer goroutine updates it under Crew's mutex while the crew loop (Timers.Add/Cancel,
// SetMachine, GetChanged, ...) takes no lock at all.
func c17KnownRace(r string) bool {
	sides := strings.Split(r[strings.Index(r, ": ")+2:], " / ")
	if len(sides) != 2 {
		return false
	}
	for _, s := range sides {
		ok := false
		for _, fn := range []string{"sio.Timers).changed@", "sio.Crew).change@", "sio.Crew).GetChanged@"} {
			if strings.Contains(s, fn) {
				ok = true
			}
		}
		if !ok {
			return false
		}
	}
	return true
}

// VerifC17SioTime: the same statement with TIME as a solver variable (see cmd/mcrew's VerifC17McrewTime): a
// timer with an arbitrary delay d1, an arbitrary wait p, then a cancel, a replacing make or a make under
// another id with an arbitrary delay d2; the solver decides for all values which of expiry and request
// comes first or whether they coincide.
func VerifC17SioTime() {
	d1 := time.Duration(verif.AnyInt("d1", 1_000_000, 500_000_000))
	p := time.Duration(verif.AnyInt("p", 1_000_000, 500_000_000))
	d2 := time.Duration(verif.AnyInt("d2", 1_000_000, 500_000_000))
	c := &Crew{Conf: &CrewConf{Id: "c17t", Ctl: &core.Control{Limit: 10}}, Machines: map[string]*crew.Machine{},
		changed: map[string]*Changed{}, previous: map[string]string{}}
	lg := &c17log{}
	ctx, cancel := context.WithCancel(context.Background())
	defer cancel()
	var ts *Timers
	doAdd := func(id string, d time.Duration) {
		due := time.Now().UTC().Add(d)
		err := ts.Add(ctx, id, id, d)
		lg.add(c17ev{kind: "add", id: id, ok: err == nil, due: due})
	}
	ts = NewTimers(func(ctx context.Context, te *TimerEntry) {
		lg.add(c17ev{kind: "fire", id: te.Id})
	})
	ts.c = c
	c.timers = ts
	doAdd("t1", d1)
	time.Sleep(p)
	switch verif.Choose("then", 3) {
	case 0:
		err := ts.Cancel(ctx, "t1")
		lg.add(c17ev{kind: "rem", id: "t1", ok: err == nil})
	case 1:
		doAdd("t1", d2)
	default:
		doAdd("t2", d2)
	}
	time.Sleep(1100 * time.Millisecond) // (delays are at most 500 ms each)
	lg.Lock()
	evs := append([]c17ev(nil), lg.evs...)
	lg.Unlock()
	pending := c17Check(evs, true)
	verif.Assert("accepted-timer-fires", len(pending) == 0)
	for _, id := range []string{"t1", "t2"} {
		ts.Lock()
		_, listed := ts.Map[id]
		ts.Unlock()
		verif.Assert("map-equals-pending-timers", !listed)
	}
	verif.Reach("time-done")
	cancel()
	time.Sleep(10 * time.Millisecond)
	verif.Assert("no-goroutine-left-after-cancel", verif.Quiesce() == 0)
}
