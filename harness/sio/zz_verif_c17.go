//go:build verif

package sio

import (
	"context"
	"strings"
	"time"

	"github.com/Comcast/sheens/core"
	"github.com/Comcast/sheens/crew"
	"github.com/Comcast/sheens/zzverif/verif"
)

const (
	c17Short = 20 * time.Millisecond
	c17Long  = 400 * time.Millisecond
)

type c17Firing struct {
	id string
	at time.Time
}

// VerifC17Sio: the single-loop crew's timers: at most once, never early, cancel wins, an accepted timer
// that is not cancelled fires, the id is free from the moment the timer fires (also for the handler), a
// timer re-created by the handler stays in the map, the published map equals the pending timers.
func VerifC17Sio() {
	var fired []c17Firing
	c := &Crew{Conf: &CrewConf{Id: "c17", Ctl: &core.Control{Limit: 10}}, Machines: map[string]*crew.Machine{},
		changed: map[string]*Changed{}, previous: map[string]string{}}
	ctx, cancel := context.WithCancel(context.Background())
	defer cancel()
	var ts *Timers
	handlerMode := verif.Choose("handler", 3)
	handlerDone := false
	var handlerDue time.Time
	emitter := func(ctx context.Context, te *TimerEntry) {
		fired = append(fired, c17Firing{id: te.Id, at: time.Now().UTC()})
		if te.Id == "t1" && !handlerDone {
			handlerDone = true
			handlerDue = time.Now().UTC().Add(c17Long)
			switch handlerMode {
			case 1: // the handler makes a new timer under the id that is firing
				ts.Add(ctx, "t1", "again", c17Long)
			case 2: // ... or under another id
				ts.Add(ctx, "t2", "other", c17Long)
			}
		}
	}
	ts = NewTimers(emitter)
	ts.c = c
	c.timers = ts

	type req struct {
		add    bool
		id     string
		due    time.Time
		at     time.Time
		err    error
		listed bool // (for Add) an entry for the id was pending when the request was made
	}
	var reqs []*req
	nreq := 1 + verif.Choose("nreq", 3)
	for i := 0; i < nreq; i++ {
		tag := "req" + string(rune('0'+i))
		r := &req{id: []string{"t1", "t2"}[verif.Choose(tag+".id", 2)]}
		ts.Lock()
		_, r.listed = ts.Map[r.id]
		ts.Unlock()
		if i == 0 || verif.Choose(tag+".kind", 2) == 0 {
			r.add = true
			d := []time.Duration{c17Short, c17Long}[verif.Choose(tag+".delay", 2)]
			r.due = time.Now().UTC().Add(d)
			r.err = ts.Add(ctx, r.id, r.id, d)
		} else {
			r.err = ts.Cancel(ctx, r.id)
		}
		r.at = time.Now().UTC()
		reqs = append(reqs, r)
		if verif.Choose(tag+".pause", 2) == 1 {
			time.Sleep(100 * time.Millisecond)
		}
	}
	time.Sleep(200 * time.Millisecond)

	// which timers are live at the end, by replaying the accepted requests: an Add replaces a pending timer
	// of the same id (that one is cancelled), a Cancel removes it
	type tm struct {
		due    time.Time
		since  time.Time
		cancel time.Time
		gone   bool
	}
	var all []*tm
	live := map[string]*tm{}
	for _, r := range reqs {
		if r.add && r.err == nil {
			if old := live[r.id]; old != nil && !old.gone {
				old.gone, old.cancel = true, r.at
			}
			t := &tm{due: r.due, since: r.at}
			live[r.id] = t
			all = append(all, t)
			_ = t
		} else if !r.add && r.err == nil {
			if old := live[r.id]; old != nil && !old.gone {
				old.gone, old.cancel = true, r.at
			}
		}
	}
	count := map[string]int{}
	for _, f := range fired {
		count[f.id]++
	}
	// never early: every firing is at or after the due time of some accepted timer of that id
	for _, f := range fired {
		ok := false
		for _, r := range reqs {
			if r.add && r.err == nil && r.id == f.id && !f.at.Before(r.due) {
				ok = true
			}
		}
		if handlerDone && handlerMode != 0 && !f.at.Before(handlerDue) {
			if (handlerMode == 1 && f.id == "t1") || (handlerMode == 2 && f.id == "t2") {
				ok = true
			}
		}
		verif.Assert("never-fires-early", ok)
	}
	// at most once per accepted timer
	acc := map[string]int{}
	for _, r := range reqs {
		if r.add && r.err == nil {
			acc[r.id]++
		}
	}
	if handlerDone && handlerMode == 1 {
		acc["t1"]++
	}
	if handlerDone && handlerMode == 2 {
		acc["t2"]++
	}
	for _, id := range []string{"t1", "t2"} {
		verif.Assert("fires-at-most-once-per-accepted-timer", count[id] <= acc[id])
	}
	// an accepted short timer that nobody cancelled or replaced has fired by now (exactly once)
	for i, r := range reqs {
		if r.add && r.err == nil && r.due.Before(time.Now().UTC().Add(-50*time.Millisecond)) {
			cancelled := false
			for j, r2 := range reqs {
				// a later request (in program order) for the same id, made before the timer was due
				if j > i && r2.id == r.id && r2.err == nil && r2.at.Before(r.due) {
					cancelled = true // cancelled or replaced before it was due
				}
			}
			// the handler's own make request replaces a pending timer of that id as well
			hid := ""
			if handlerDone && handlerMode == 1 {
				hid = "t1"
			} else if handlerDone && handlerMode == 2 {
				hid = "t2"
			}
			if hid == r.id && !handlerDue.Add(-c17Long).After(r.due) {
				cancelled = true
			}
			if !cancelled {
				verif.Assert("accepted-timer-fires", count[r.id] >= 1)
			}
		}
	}
	// the map lists exactly the pending timers: a re-created "t1" (by the handler) is still there
	ts.Lock()
	_, listed1 := ts.Map["t1"]
	ts.Unlock()
	if handlerDone && handlerMode == 1 && count["t1"] < acc["t1"] {
		later := false
		for _, r := range reqs {
			if r.id == "t1" && r.at.After(handlerDue.Add(-c17Long)) {
				later = true
			}
		}
		if !later {
			verif.Assert("recreated-timer-stays-listed", listed1)
		}
	}
	verif.Reach("end")
	cancel()
	time.Sleep(10 * time.Millisecond)
	verif.Assert("no-goroutine-left-after-cancel", verif.Quiesce() == 0)
	c17Races()
}

// c17Races: timer activity never corrupts crew state: no two accesses of the code under test to the same
// memory, one of them a write, are unordered by happens-before (what the race detector would report).
func c17Races() {
	for _, r := range verif.RaceReports() {
		if verif.Known("C17-sio-changed-unlocked") && c17KnownRace(r) {
			continue
		}
		verif.Note("race: " + r)
		verif.Assert("no-data-race", false)
	}
}

// c17KnownRace: both accesses belong to the crew's change bookkeeping (Crew.changed and its Changed
// records): the timer goroutine updates it under Crew's mutex while the crew loop (Timers.Add/Cancel,
// SetMachine, GetChanged, ...) takes no lock at all.
func c17KnownRace(r string) bool {
	sides := strings.Split(r[strings.Index(r, ": ")+2:], " / ")
	if len(sides) != 2 {
		return false
	}
	for _, s := range sides {
		ok := false
		for _, fn := range []string{"sio.Timers).changed@", "sio.Crew).change@", "sio.Crew).GetChanged@"} {
			if strings.Contains(s, fn) {
				ok = true
			}
		}
		if !ok {
			return false
		}
	}
	return true
}
