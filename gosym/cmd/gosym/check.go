package main

import (
	"encoding/json"
	"flag"
	"fmt"
	"os"
	"os/exec"
	"path/filepath"
	"sort"
	"strconv"
	"strings"
	"time"

	gx "sheensverif/gosym/exec"
)

// ---- registry ----

type harnessSpec struct {
	Pkg      string `json:"pkg"`  // directory under /repo
	Func     string `json:"func"` // harness entry point
	MaxPaths int64  `json:"max_paths,omitempty"`
	// per-tier wall budget in seconds (0 = default)
	QuickS       int  `json:"quick_s,omitempty"`
	ThoroughS    int  `json:"thorough_s,omitempty"`
	ThoroughOnly bool `json:"thorough_only,omitempty"`
	StrMax       int  `json:"str_max,omitempty"`
	// RaceHarness: native-only harness that reruns a counterexample of this harness concurrently; a data
	// race reported by the race detector confirms a "write to shared data" counterexample
	RaceHarness string `json:"race_harness,omitempty"`
	MaxSteps    int64  `json:"max_steps,omitempty"`
}

type checkSpec struct {
	Harnesses   []harnessSpec `json:"harnesses"`
	Assumptions []string      `json:"assumptions"`
	Outside     []string      `json:"outside"`
}

type knownFinding struct {
	Property string `json:"property"`
	ID       string `json:"id"`
	Status   string `json:"status"` // known | fixed
	Commit   string `json:"commit,omitempty"`
	What     string `json:"what"`
	Witness  string `json:"witness"` // path of a counterexample file under /verif/known
}

func loadRegistry() (map[string]*checkSpec, error) {
	b, err := os.ReadFile(filepath.Join(verifDir, "harness", "checks.json"))
	if err != nil {
		return nil, err
	}
	reg := map[string]*checkSpec{}
	if err := json.Unmarshal(b, &reg); err != nil {
		return nil, err
	}
	return reg, nil
}

func loadKnown() ([]*knownFinding, error) {
	b, err := os.ReadFile(filepath.Join(verifDir, "known_findings.json"))
	if err != nil {
		if os.IsNotExist(err) {
			return nil, nil
		}
		return nil, err
	}
	var doc struct {
		Findings []*knownFinding `json:"findings"`
	}
	if err := json.Unmarshal(b, &doc); err != nil {
		return nil, err
	}
	return doc.Findings, nil
}

// ---- native replay ----

type replayResult struct {
	Path    string
	Status  string // FAIL | PASS | MISMATCH | SKIP | ERROR | NOTRUN
	Detail  string
	Reached map[string]bool
}

// nativeReplay runs `go test` on the package dir with the harness overlay and the given cex files.
func nativeReplay(pkgDir string, cexPaths []string, timeout time.Duration) (map[string]*replayResult, string, error) {
	return nativeReplayMode(pkgDir, cexPaths, timeout, false)
}

func nativeReplayMode(pkgDir string, cexPaths []string, timeout time.Duration, race bool) (map[string]*replayResult, string, error) {
	res := map[string]*replayResult{}
	for _, p := range cexPaths {
		res[p] = &replayResult{Path: p, Status: "NOTRUN", Reached: map[string]bool{}}
	}
	if len(cexPaths) == 0 {
		return res, "", nil
	}
	ov, err := overlayFiles()
	if err != nil {
		return res, "", err
	}
	tmp, err := os.MkdirTemp("", "gosym-replay-")
	if err != nil {
		return res, "", err
	}
	defer os.RemoveAll(tmp)
	ovJSON, _ := json.Marshal(map[string]interface{}{"Replace": ov})
	ovPath := filepath.Join(tmp, "overlay.json")
	if err := os.WriteFile(ovPath, ovJSON, 0o644); err != nil {
		return res, "", err
	}
	args := []string{"test"}
	if race {
		args = append(args, "-race")
	}
	args = append(args, "-tags", "verif", "-vet=off", "-count=1", "-overlay", ovPath,
		"-timeout", fmt.Sprintf("%ds", int(timeout.Seconds())), "-run", "^TestVerifReplay$", "-v", "./"+pkgDir)
	cmd := exec.Command("go", args...)
	cmd.Dir = repoDir
	cgo := "CGO_ENABLED=0"
	if race {
		cgo = "CGO_ENABLED=1"
	}
	cmd.Env = append(goEnv(), "VERIF_CEX="+strings.Join(cexPaths, ":"), cgo)
	out, runErr := cmd.CombinedOutput()
	text := string(out)
	for _, line := range strings.Split(text, "\n") {
		if !strings.HasPrefix(line, "VERIF-REPLAY ") {
			continue
		}
		f := strings.SplitN(line, " ", 4)
		if len(f) < 3 {
			continue
		}
		r := res[f[1]]
		if r == nil {
			continue
		}
		r.Status = f[2]
		if len(f) == 4 {
			rest := f[3]
			if i := strings.LastIndex(rest, "; reached="); i >= 0 {
				for _, l := range strings.Split(rest[i+len("; reached="):], ",") {
					if l != "" {
						r.Reached[l] = true
					}
				}
				rest = strings.TrimSpace(rest[:i])
			}
			r.Detail = rest
		}
	}
	if race {
		if found, where := sheensRace(text); found {
			for _, r := range res {
				if r.Status == "PASS" || r.Status == "NOTRUN" {
					r.Status, r.Detail = "FAIL", "data race reported by the race detector: "+where
				}
			}
		}
	}
	if runErr != nil {
		// go test exits non-zero on test failure or build failure; if no line was parsed it is a build failure
		any := false
		for _, r := range res {
			if r.Status != "NOTRUN" {
				any = true
			}
		}
		if !any {
			return res, text, fmt.Errorf("native replay did not run: %v", runErr)
		}
	}
	return res, text, nil
}

// sheensRace: the race detector's output holds a report whose two accesses are both in the code under test
// (the first frame under the tree that is not a harness file); races among harness code are ignored.
func sheensRace(text string) (bool, string) {
	blocks := strings.Split(text, "WARNING: DATA RACE")
	for _, b := range blocks[1:] {
		if i := strings.Index(b, "=================="); i >= 0 {
			b = b[:i]
		}
		var sites []string
		lines := strings.Split(b, "\n")
		for i := 0; i < len(lines); i++ {
			l := strings.TrimSpace(lines[i])
			if !(strings.HasPrefix(l, "Write at") || strings.HasPrefix(l, "Read at") ||
				strings.HasPrefix(l, "Previous write at") || strings.HasPrefix(l, "Previous read at")) {
				continue
			}
			// the stack follows: function line, then "file:line +0x.." line; take the first frame under the tree
			site := ""
			for j := i + 1; j < len(lines) && strings.TrimSpace(lines[j]) != ""; j++ {
				f := strings.TrimSpace(lines[j])
				if strings.HasPrefix(f, repoDir+"/") {
					if k := strings.Index(f, " "); k > 0 {
						f = f[:k]
					}
					site = f
					break
				}
			}
			sites = append(sites, site)
		}
		if len(sites) >= 2 && sites[0] != "" && sites[1] != "" &&
			!strings.Contains(sites[0], "zz_verif") && !strings.Contains(sites[1], "zz_verif") {
			return true, sites[1] + " / " + sites[0]
		}
	}
	return false, ""
}

func writeCex(dir string, name string, c *gx.Cex) (string, error) {
	if err := os.MkdirAll(dir, 0o755); err != nil {
		return "", err
	}
	p := filepath.Join(dir, name)
	b, _ := json.MarshalIndent(c, "", " ")
	return p, os.WriteFile(p, b, 0o644)
}

// ---- evidence ----

type evidence struct {
	PropertyID  string                 `json:"property_id"`
	Tier        string                 `json:"tier"`
	Seed        int                    `json:"seed"`
	Level       string                 `json:"level"`
	Coverage    map[string]interface{} `json:"coverage"`
	Assumptions []string               `json:"assumptions"`
	WallS       float64                `json:"wall_s"`
	Violations  int                    `json:"violations"`
}

func writeEvidence(id string, ev *evidence) {
	os.MkdirAll(filepath.Join(outDir, "evidence"), 0o755)
	b, _ := json.MarshalIndent(ev, "", " ")
	os.WriteFile(filepath.Join(outDir, "evidence", id+".json"), b, 0o644)
}

// ---- check ----

func cmdCheck(args []string) int {
	fs := flag.NewFlagSet("check", flag.ExitOnError)
	tierS := fs.String("tier", os.Getenv("VERIF_TIER"), "quick|thorough")
	workers := fs.Int("workers", 16, "workers")
	solver := fs.String("solver", "z3", "solver binary")
	only := fs.String("only", "", "run only this harness function")
	var id string
	if len(args) > 0 && !strings.HasPrefix(args[0], "-") {
		id = args[0]
		args = args[1:]
	}
	fs.Parse(args)
	if id == "" && fs.NArg() > 0 {
		id = fs.Arg(0)
	}
	if *tierS == "" {
		*tierS = "quick"
	}
	tier := 0
	if *tierS == "thorough" {
		tier = 1
	}
	seed, _ := strconv.Atoi(os.Getenv("VERIF_SEED"))
	t0 := time.Now()
	ev := &evidence{PropertyID: id, Tier: *tierS, Seed: seed, Level: "model_checking", Coverage: map[string]interface{}{}}
	inconclusive := func(msg string) int {
		fmt.Printf("INCONCLUSIVE property=%s %s\n", id, msg)
		ev.Coverage["inconclusive"] = msg
		if _, ok := ev.Coverage["states"]; !ok {
			ev.Coverage["states"] = 0
		}
		ev.WallS = time.Since(t0).Seconds()
		writeEvidence(id, ev)
		return 3
	}
	reg, err := loadRegistry()
	if err != nil {
		return inconclusive("registry: " + err.Error())
	}
	spec := reg[id]
	if spec == nil {
		return inconclusive("no check registered for " + id)
	}
	known, err := loadKnown()
	if err != nil {
		return inconclusive("known findings: " + err.Error())
	}

	// 1. known / fixed findings: replay their stored witnesses natively
	activeKnown := map[string]bool{}
	var knownLines []string
	tracesValidated := 0
	byPkg := map[string][]string{}
	wit := map[string]*knownFinding{}
	for _, k := range known {
		if k.Property != id || k.Witness == "" {
			continue
		}
		p := filepath.Join(verifDir, k.Witness)
		c, err := readCex(p)
		if err != nil {
			return inconclusive("witness " + k.Witness + ": " + err.Error())
		}
		key := c.Pkg
		if c.Label == "no-data-race" {
			key = "race:" + c.Pkg
		}
		byPkg[key] = append(byPkg[key], p)
		wit[p] = k
	}
	violationPaths := []string{}
	for pkg, paths := range byPkg {
		raceMode := strings.HasPrefix(pkg, "race:")
		rr, out, err := nativeReplayMode(strings.TrimPrefix(pkg, "race:"), paths, 10*time.Minute, raceMode)
		if err != nil {
			return inconclusive("witness replay: " + err.Error() + "\n" + tail(out, 2000))
		}
		if raceMode {
			// the race detector needs both accesses to happen in the run: give a recorded race three attempts
			for attempt := 0; attempt < 2; attempt++ {
				var again []string
				for p, r := range rr {
					if r.Status != "FAIL" {
						again = append(again, p)
					}
				}
				if len(again) == 0 {
					break
				}
				if rr2, _, err2 := nativeReplayMode(strings.TrimPrefix(pkg, "race:"), again, 10*time.Minute, true); err2 == nil {
					for p, r := range rr2 {
						if r.Status == "FAIL" {
							rr[p] = r
						}
					}
				}
			}
		}
		for p, r := range rr {
			k := wit[p]
			switch {
			case k.Status == "known" && r.Status == "FAIL":
				activeKnown[k.ID] = true
				tracesValidated++
				knownLines = append(knownLines, fmt.Sprintf("KNOWN-FINDING: property=%s %s [%s]", id, k.What, k.ID))
			case k.Status == "known":
				// no longer reproduces (repaired?): the exclusion is NOT applied, the full property is checked
				fmt.Printf("NOTE: known finding %s no longer reproduces natively (%s %s); its exclusion is inactive\n", k.ID, r.Status, r.Detail)
			case k.Status == "fixed" && r.Status == "FAIL":
				fmt.Printf("REGRESSION: fixed finding %s fails again: %s\n", k.ID, r.Detail)
				violationPaths = append(violationPaths, p)
			case k.Status == "fixed" && r.Status == "PASS":
				tracesValidated++
			case k.Status == "fixed":
				fmt.Printf("NOTE: regression witness %s did not run as recorded (%s %s)\n", k.ID, r.Status, r.Detail)
			}
		}
	}
	sort.Strings(knownLines)
	for _, l := range knownLines {
		fmt.Println(l)
	}

	// 2. load the real code + harness overlay
	pkgSet := map[string]bool{}
	var patterns []string
	for _, h := range spec.Harnesses {
		if !pkgSet[h.Pkg] {
			pkgSet[h.Pkg] = true
			patterns = append(patterns, "./"+h.Pkg)
		}
	}
	// translator validation: the repository's own match table goes through the executor first
	selfRows, selfErr := genSelfTest()
	if selfErr != nil {
		return inconclusive("selftest: " + selfErr.Error())
	}
	if !pkgSet["match"] {
		patterns = append(patterns, "./match")
	}
	prog, _, err := loadProgram(patterns)
	if err != nil {
		return inconclusive("cannot load /repo with harness overlay: " + err.Error())
	}
	selfInfo, selfFail := runSelfTest(prog, selfRows, *solver, *workers)
	if selfFail != "" {
		return inconclusive(selfFail)
	}

	// 3. symbolic exploration of every harness
	cexDir := filepath.Join(outDir, "cex", id)
	os.RemoveAll(cexDir)
	var total gx.Stats
	total.Funcs = map[string]int64{}
	total.Bounds = map[string]string{}
	total.Models = map[string]bool{}
	var perHarness []map[string]interface{}
	var samples []interface{}
	type pendingCex struct {
		path, pkg, harness, label, kind string
		reach                           bool
	}
	var pend []pendingCex
	var engineErrs []string
	unreached := []string{}
	raceHarness := map[string]string{}
	for _, h := range spec.Harnesses {
		raceHarness[h.Func] = h.RaceHarness
	}
	for _, h := range spec.Harnesses {
		if *only != "" && h.Func != *only {
			continue
		}
		if h.ThoroughOnly && tier == 0 {
			continue
		}
		p := prog.ImportedPackage(modulePath + "/" + h.Pkg)
		if p == nil {
			return inconclusive("package not loaded: " + h.Pkg)
		}
		f := p.Func(h.Func)
		if f == nil {
			return inconclusive("harness function not found: " + h.Pkg + "." + h.Func)
		}
		budget := h.QuickS
		if tier == 1 {
			budget = h.ThoroughS
		}
		if budget == 0 {
			// a safety net, far above what any harness needs on the unchanged tree: a change to the code under
			// test that makes the exploration explode ends the run INCONCLUSIVE instead of running for ever
			budget = 900
			if tier == 1 {
				budget = 3600
			}
		}
		cfg := gx.Config{Prog: prog, Entry: f, Tier: tier, SolverBin: *solver, Workers: *workers,
			ModulePath: modulePath, MaxPaths: h.MaxPaths, Known: activeKnown, StrMax: h.StrMax, MaxSteps: h.MaxSteps, OrderInsensitive: orderLemmas()}
		if budget > 0 {
			cfg.Deadline = time.Now().Add(time.Duration(budget) * time.Second)
		}
		res := gx.Run(cfg)
		st := res.Stats
		total.Paths += st.Paths
		total.Pruned += st.Pruned
		total.Infeasible += st.Infeasible
		total.Decisions += st.Decisions
		total.Sat += st.Sat
		total.Unsat += st.Unsat
		total.Unknown += st.Unknown
		total.SolverTime += st.SolverTime
		total.Steps += st.Steps
		total.Asserts += st.Asserts
		total.AssertsProved += st.AssertsProved
		total.AssertsConcrete += st.AssertsConcrete
		for k, v := range st.Funcs {
			total.Funcs[k] += v
		}
		for k, v := range st.Bounds {
			total.Bounds[h.Func+"."+k] = v
		}
		for k := range st.Models {
			total.Models[k] = true
		}
		hr := map[string]interface{}{"harness": h.Pkg + "." + h.Func, "paths": st.Paths, "pruned_by_assumption": st.Pruned,
			"infeasible": st.Infeasible, "decisions": st.Decisions, "obligations": st.Asserts,
			"obligations_discharged_by_solver": st.AssertsProved, "obligations_concrete": st.AssertsConcrete,
			"queries_sat": st.Sat, "queries_unsat": st.Unsat, "queries_unknown": st.Unknown,
			"solver_s": round3(st.SolverTime.Seconds()), "wall_s": round3(res.Wall.Seconds()), "reach": st.Reach, "notes": st.Notes}
		perHarness = append(perHarness, hr)
		if res.EngineErr != "" {
			engineErrs = append(engineErrs, h.Func+": "+res.EngineErr)
		}
		n := 0
		for label, c := range st.ReachCex {
			if c == nil {
				continue
			}
			c.Property, c.Harness, c.Pkg, c.Repeat = id, h.Func, h.Pkg, 64
			path, _ := writeCex(cexDir, fmt.Sprintf("reach-%s-%s.json", h.Func, sanitizeName(label)), c)
			pend = append(pend, pendingCex{path: path, pkg: h.Pkg, harness: h.Func, label: label, kind: "reach", reach: true})
			if len(samples) < 3 {
				samples = append(samples, map[string]interface{}{"harness": h.Func, "witness_of": label, "inputs": c.Inputs})
			}
		}
		for label, cnt := range st.Reach {
			if cnt == 0 {
				unreached = append(unreached, h.Func+":"+label)
			}
		}
		for _, v := range res.Violations {
			c := v.Cex
			c.Property, c.Harness, c.Pkg, c.Repeat, c.Detail = id, h.Func, h.Pkg, 512, v.Detail
			if v.Label == "no-data-race" {
				c.Repeat = 8 // the race detector needs the two accesses to happen, not a particular timing
			}
			path, _ := writeCex(cexDir, fmt.Sprintf("viol-%s-%d.json", h.Func, n), c)
			n++
			pend = append(pend, pendingCex{path: path, pkg: h.Pkg, harness: h.Func, label: v.Label, kind: v.Kind})
		}
	}

	// 4. native replay of reach witnesses and of candidate violations
	byPkg = map[string][]string{}
	for _, pc := range pend {
		byPkg[pc.pkg] = append(byPkg[pc.pkg], pc.path)
	}
	results := map[string]*replayResult{}
	for pkg, paths := range byPkg {
		rr, out, err := nativeReplay(pkg, paths, 20*time.Minute)
		if err != nil {
			return inconclusive("native replay: " + err.Error() + "\n" + tail(out, 3000))
		}
		for p, r := range rr {
			results[p] = r
		}
	}
	var unconfirmed, reachUnconfirmed []string
	for _, pc := range pend {
		r := results[pc.path]
		if pc.reach {
			if r != nil && r.Reached[pc.label] && r.Status != "FAIL" {
				tracesValidated++
			} else {
				st, de := "NOTRUN", ""
				if r != nil {
					st, de = r.Status, r.Detail
				}
				reachUnconfirmed = append(reachUnconfirmed, fmt.Sprintf("%s:%s(%s %s)", pc.harness, pc.label, st, de))
			}
			continue
		}
		if (r == nil || r.Status != "FAIL") && pc.label == "no-data-race" {
			// a race seen by the executor's happens-before detector: confirm with the same harness under -race
			rr, _, err := nativeReplayMode(pc.pkg, []string{pc.path}, 20*time.Minute, true)
			if err == nil && rr[pc.path] != nil && rr[pc.path].Status == "FAIL" {
				r = rr[pc.path]
			}
		}
		if (r == nil || r.Status != "FAIL") && pc.kind == "write" && raceHarness[pc.harness] != "" {
			// "write to shared data": confirm by running the same walk concurrently under the race detector
			if c, err := readCex(pc.path); err == nil {
				c.Harness, c.Repeat = raceHarness[pc.harness], 1
				rp, _ := writeCex(cexDir, "race-"+filepath.Base(pc.path), c)
				rr, _, err := nativeReplayMode(pc.pkg, []string{rp}, 20*time.Minute, true)
				if err == nil && rr[rp] != nil && rr[rp].Status == "FAIL" {
					r = rr[rp]
				}
			}
		}
		if r != nil && r.Status == "FAIL" {
			violationPaths = append(violationPaths, pc.path)
			fmt.Printf("counterexample %s (%s %s) reproduces natively: %s\n", pc.path, pc.kind, pc.label, r.Detail)
		} else {
			st, de := "NOTRUN", ""
			if r != nil {
				st, de = r.Status, r.Detail
			}
			unconfirmed = append(unconfirmed, fmt.Sprintf("%s %s:%s native=%s %s", pc.path, pc.kind, pc.label, st, de))
		}
	}

	// 5. evidence
	var fl []string
	for f := range total.Funcs {
		if !strings.Contains(f, "/zzverif/") && !strings.Contains(f, ".Verif") {
			fl = append(fl, f)
		}
	}
	sort.Strings(fl)
	var ml []string
	for m := range total.Models {
		if !strings.Contains(m, "/zzverif/") {
			ml = append(ml, m)
		}
	}
	sort.Strings(ml)
	if len(samples) == 0 {
		samples = append(samples, map[string]interface{}{"note": "no reach witness produced"})
	}
	ev.Coverage = map[string]interface{}{
		"states":                        total.Paths,
		"transitions":                   total.Decisions,
		"traces_validated_against_impl": tracesValidated,
		"samples":                       samples,
		"exhaustive":                    len(engineErrs) == 0,
		"explanation": "states = completed symbolic paths of the real code (go/ssa) under the harness; transitions = branch/choice points decided by the executor and z3; " +
			"every obligation is a z3 query over all values of the symbolic leaves on that path; traces_validated = solver models replayed against the natively compiled code with the same harness",
		"paths_pruned_by_assumption":       total.Pruned,
		"paths_infeasible":                 total.Infeasible,
		"obligations":                      total.Asserts,
		"obligations_discharged_by_solver": total.AssertsProved,
		"obligations_decided_concretely":   total.AssertsConcrete,
		"queries":                          map[string]int64{"sat": total.Sat, "unsat": total.Unsat, "unknown": total.Unknown},
		"solver":                           *solver + " (persistent -in process per worker)",
		"solver_s":                         round3(total.SolverTime.Seconds()),
		"ssa_instructions":                 total.Steps,
		"functions_encoded":                fl,
		"models_used":                      ml,
		"bounds":                           total.Bounds,
		"harnesses":                        perHarness,
		"known_findings_active":            keys(activeKnown),
		"unconfirmed_counterexamples":      unconfirmed,
		"reach_witness_unconfirmed":        reachUnconfirmed,
		"outside_the_claim":                spec.Outside,
		"translator_selftest":              selfInfo,
	}
	ev.Assumptions = append([]string{"z3 4.8.12 answers are correct; go/ssa (x/tools v0.29.0) lowers the source faithfully; the gosym executor implements SSA semantics (validated by replaying solver models natively)"}, spec.Assumptions...)
	for _, m := range ml {
		ev.Assumptions = append(ev.Assumptions, "environment model: "+m)
	}
	ev.WallS = round3(time.Since(t0).Seconds())
	ev.Violations = len(violationPaths)
	writeEvidence(id, ev)

	fmt.Printf("property=%s tier=%s paths=%d decisions=%d obligations=%d (solver %d, concrete %d) queries sat=%d unsat=%d unknown=%d solver_s=%.1f wall_s=%.1f replayed=%d\n",
		id, *tierS, total.Paths, total.Decisions, total.Asserts, total.AssertsProved, total.AssertsConcrete, total.Sat, total.Unsat, total.Unknown,
		total.SolverTime.Seconds(), time.Since(t0).Seconds(), tracesValidated)
	if len(violationPaths) > 0 {
		for _, p := range violationPaths {
			fmt.Printf("VIOLATION property=%s replay=%s\n", id, p)
		}
		return 1
	}
	if len(unconfirmed) > 0 {
		for _, u := range unconfirmed {
			fmt.Println("UNCONFIRMED:", u)
		}
		return inconclusiveKeep(id, ev, "solver counterexample(s) did not reproduce natively (model or encoding issue)")
	}
	if len(engineErrs) > 0 {
		return inconclusiveKeep(id, ev, strings.Join(engineErrs, "; "))
	}
	if len(unreached) > 0 {
		return inconclusiveKeep(id, ev, "VACUOUS: labels never reached: "+strings.Join(unreached, ","))
	}
	if len(reachUnconfirmed) > 0 {
		fmt.Println("NOTE: reach witnesses not confirmed natively:", reachUnconfirmed)
	}
	fmt.Printf("OK property=%s\n", id)
	return 0
}

func inconclusiveKeep(id string, ev *evidence, msg string) int {
	fmt.Printf("INCONCLUSIVE property=%s %s\n", id, msg)
	ev.Coverage["inconclusive"] = msg
	ev.Coverage["exhaustive"] = false
	writeEvidence(id, ev)
	return 3
}

func keys(m map[string]bool) []string {
	r := []string{}
	for k := range m {
		r = append(r, k)
	}
	sort.Strings(r)
	return r
}

func round3(f float64) float64 { return float64(int64(f*1000+0.5)) / 1000 }

func tail(s string, n int) string {
	if len(s) > n {
		return s[len(s)-n:]
	}
	return s
}

func sanitizeName(s string) string {
	var b strings.Builder
	for _, c := range s {
		if (c >= 'a' && c <= 'z') || (c >= 'A' && c <= 'Z') || (c >= '0' && c <= '9') || c == '-' || c == '_' {
			b.WriteRune(c)
		} else {
			b.WriteByte('_')
		}
	}
	return b.String()
}

func readCex(path string) (*gx.Cex, error) {
	b, err := os.ReadFile(path)
	if err != nil {
		return nil, err
	}
	var c gx.Cex
	if err := json.Unmarshal(b, &c); err != nil {
		return nil, err
	}
	return &c, nil
}

// cmdReplay replays one counterexample file natively. Exit 1 if the failure reproduces.
func cmdReplay(args []string) int {
	if len(args) < 1 {
		usage()
	}
	path, _ := filepath.Abs(args[0])
	c, err := readCex(path)
	if err != nil {
		fmt.Println("cannot read", path, err)
		return 3
	}
	rr, out, err := nativeReplayMode(c.Pkg, []string{path}, 20*time.Minute, c.Label == "no-data-race")
	if err != nil {
		fmt.Println(err)
		fmt.Println(tail(out, 3000))
		return 3
	}
	if os.Getenv("GOSYM_REPLAY_VERBOSE") != "" {
		fmt.Println(out)
	}
	r := rr[path]
	fmt.Printf("replay %s: harness=%s.%s label=%s native=%s %s\n", path, c.Pkg, c.Harness, c.Label, r.Status, r.Detail)
	if r.Status == "FAIL" {
		fmt.Printf("REPRODUCED property=%s replay=%s\n", c.Property, path)
		return 1
	}
	return 0
}

// orderLemmas: functions whose observable result does not depend on the order in which they range over
// a map.  Each is PROVED order-insensitive (all orders explored, result compared) by the harness
// VerifOrderLemmas of its package, which every check relying on the reduction runs first.
func orderLemmas() map[string]bool {
	return map[string]bool{
		"(github.com/Comcast/sheens/match.Bindings).Copy":   true,
		"github.com/Comcast/sheens/match.copyMap":           true,
		"(github.com/Comcast/sheens/core.StepProps).Copy":   true,
		"(*github.com/Comcast/sheens/sio.Crew).GetChanged":  true, // lemma: sio.VerifSioOrderLemmas
		"(*github.com/Comcast/sheens/core.FuncAction).Exec": true, // lemma: core.VerifCoreOrderLemmas
	}
}
