package main

import (
	"encoding/json"
	"flag"
	"fmt"
	"os"
	"sort"
	"time"

	"sheensverif/gosym/exec"
)

func main() {
	if len(os.Args) < 2 {
		usage()
	}
	switch os.Args[1] {
	case "run":
		cmdRun(os.Args[2:])
	case "check":
		os.Exit(cmdCheck(os.Args[2:]))
	case "replay":
		os.Exit(cmdReplay(os.Args[2:]))
	case "selftest":
		os.Exit(cmdSelftest(os.Args[2:]))
	default:
		usage()
	}
}

func usage() {
	fmt.Fprintln(os.Stderr, "usage: gosym run --pkg <dir> --func <name> | check <id> [--tier quick|thorough] | replay <cex.json> | selftest")
	os.Exit(2)
}

// cmdRun: development entry: explore one harness and print statistics.
func cmdRun(args []string) {
	fs := flag.NewFlagSet("run", flag.ExitOnError)
	pkg := fs.String("pkg", "match", "package dir under /repo")
	fn := fs.String("func", "", "harness function")
	tier := fs.Int("tier", 0, "0 quick, 1 thorough")
	workers := fs.Int("workers", 16, "workers")
	solver := fs.String("solver", "z3", "solver binary")
	maxPaths := fs.Int64("maxpaths", 0, "path budget")
	verbose := fs.Bool("v", false, "verbose")
	known := fs.String("known", "", "comma separated known finding ids to exclude")
	maxViol := fs.Int("maxviol", 1, "stop after this many distinct violations")
	smtlog := fs.String("smtlog", "", "write worker 0's solver transcript here")
	fs.Parse(args)
	t0 := time.Now()
	prog, _, err := loadProgram([]string{"./" + *pkg})
	if err != nil {
		fmt.Fprintln(os.Stderr, err)
		os.Exit(3)
	}
	fmt.Fprintf(os.Stderr, "loaded in %v\n", time.Since(t0))
	p := prog.ImportedPackage(modulePath + "/" + *pkg)
	if p == nil {
		fmt.Fprintln(os.Stderr, "package not found")
		os.Exit(3)
	}
	f := p.Func(*fn)
	if f == nil {
		fmt.Fprintln(os.Stderr, "function not found:", *fn)
		os.Exit(3)
	}
	cfg := exec.Config{Prog: prog, Entry: f, Tier: *tier, SolverBin: *solver, Workers: *workers,
		ModulePath: modulePath, MaxPaths: *maxPaths, Verbose: *verbose, Known: splitSet(*known), SolverLog: *smtlog, OrderInsensitive: orderLemmas(), MaxViolations: *maxViol}
	res := exec.Run(cfg)
	printResult(res)
	for i, v := range res.Violations {
		c := v.Cex
		c.Harness, c.Pkg, c.Repeat, c.Detail = *fn, *pkg, 512, v.Detail
		path, _ := writeCex("/verif/cex/dev", fmt.Sprintf("%s-%d-%s.json", *fn, i, sanitizeName(v.Label)), c)
		fmt.Println("wrote", path)
	}
}

func splitSet(s string) map[string]bool {
	m := map[string]bool{}
	cur := ""
	for _, c := range s + "," {
		if c == ',' {
			if cur != "" {
				m[cur] = true
			}
			cur = ""
		} else {
			cur += string(c)
		}
	}
	return m
}

func printResult(res *exec.Result) {
	st := res.Stats
	fmt.Printf("paths=%d pruned=%d infeasible=%d decisions=%d steps=%d wall=%v\n", st.Paths, st.Pruned, st.Infeasible, st.Decisions, st.Steps, res.Wall)
	fmt.Printf("queries sat=%d unsat=%d unknown=%d solver=%v\n", st.Sat, st.Unsat, st.Unknown, st.SolverTime)
	fmt.Printf("asserts=%d proved-by-solver=%d concrete=%d\n", st.Asserts, st.AssertsProved, st.AssertsConcrete)
	var rl []string
	for l, n := range st.Reach {
		rl = append(rl, fmt.Sprintf("%s:%d", l, n))
	}
	sort.Strings(rl)
	fmt.Println("reach:", rl)
	fmt.Println("notes:", st.Notes)
	type kv struct {
		k string
		v int64
	}
	var ls []kv
	for k, v := range st.Labels {
		ls = append(ls, kv{k, v})
	}
	sort.Slice(ls, func(i, j int) bool { return ls[i].v > ls[j].v })
	if len(ls) > 25 {
		ls = ls[:25]
	}
	fmt.Println("top decision labels:", ls, "maxtrail", st.MaxTrail)
	fmt.Println("bounds:", st.Bounds)
	var fl []string
	for f := range st.Funcs {
		fl = append(fl, f)
	}
	sort.Strings(fl)
	fmt.Println("functions:", fl)
	type fc struct {
		f string
		n int64
	}
	var fcs []fc
	for f, n := range st.Funcs {
		fcs = append(fcs, fc{f, n})
	}
	sort.Slice(fcs, func(i, j int) bool { return fcs[i].n > fcs[j].n })
	if len(fcs) > 12 {
		fcs = fcs[:12]
	}
	fmt.Println("hot functions:", fcs)
	if res.EngineErr != "" {
		fmt.Println("ENGINE-ERROR:", res.EngineErr)
	}
	for _, v := range res.Violations {
		b, _ := json.Marshal(v.Cex)
		fmt.Printf("VIOLATION-CANDIDATE kind=%s label=%s detail=%s pos=%s\n  cex=%s\n", v.Kind, v.Label, v.Detail, v.Pos, b)
	}
}
