package main

import (
	"fmt"
	"os"
	"path/filepath"
	"strings"

	"golang.org/x/tools/go/packages"
	"golang.org/x/tools/go/ssa"
	"golang.org/x/tools/go/ssa/ssautil"
)

const (
	verifDir   = "/verif"
	modulePath = "github.com/Comcast/sheens"
)

// repoDir: the tree under test. Always /repo for the registered commands; GOSYM_REPO lets tools/try_seed.sh
// point a check at a scratch worktree carrying a seeded change (evidence and cex then go to GOSYM_OUT).
var repoDir = envOr("GOSYM_REPO", "/repo")

// outDir: where evidence/ and cex/ are written (default /verif).
var outDir = envOr("GOSYM_OUT", verifDir)

func envOr(k, d string) string {
	if v := os.Getenv(k); v != "" {
		return v
	}
	return d
}

// overlayFiles maps virtual paths under /repo to real harness files under /verif/harness.
func overlayFiles() (map[string]string, error) {
	res := map[string]string{}
	root := filepath.Join(verifDir, "harness")
	err := filepath.Walk(root, func(p string, info os.FileInfo, err error) error {
		if err != nil {
			return err
		}
		if info.IsDir() || !strings.HasSuffix(p, ".go") {
			return nil
		}
		rel, _ := filepath.Rel(root, p)
		dir := filepath.Dir(rel)
		var dst string
		if dir == "verif" {
			dst = filepath.Join(repoDir, "zzverif", "verif", filepath.Base(p))
		} else {
			dst = filepath.Join(repoDir, dir, filepath.Base(p))
		}
		res[dst] = p
		return nil
	})
	return res, err
}

func goEnv() []string {
	env := os.Environ()
	env = append(env, "GOFLAGS=-mod=mod", "GOPROXY=off", "GOSUMDB=off", "GOTOOLCHAIN=local", "CGO_ENABLED=0")
	return env
}

// loadProgram loads the given package patterns (relative to /repo) with the harness overlay and builds SSA.
func loadProgram(patterns []string) (*ssa.Program, []*packages.Package, error) {
	ov, err := overlayFiles()
	if err != nil {
		return nil, nil, err
	}
	overlay := map[string][]byte{}
	for dst, src := range ov {
		if strings.HasSuffix(dst, "_test.go") {
			continue
		}
		b, err := os.ReadFile(src)
		if err != nil {
			return nil, nil, err
		}
		overlay[dst] = b
	}
	for dst, b := range extraOverlay {
		overlay[dst] = b
	}
	cfg := &packages.Config{
		Mode:       packages.LoadAllSyntax,
		Dir:        repoDir,
		Env:        goEnv(),
		Overlay:    overlay,
		BuildFlags: []string{"-tags=verif"},
	}
	pkgs, err := packages.Load(cfg, patterns...)
	if err != nil {
		return nil, nil, err
	}
	var errs []string
	packages.Visit(pkgs, nil, func(p *packages.Package) {
		for _, e := range p.Errors {
			errs = append(errs, e.Error())
		}
	})
	if len(errs) > 0 {
		return nil, nil, fmt.Errorf("load errors:\n%s", strings.Join(errs, "\n"))
	}
	prog, _ := ssautil.AllPackages(pkgs, ssa.InstantiateGenerics)
	prog.Build()
	return prog, pkgs, nil
}
