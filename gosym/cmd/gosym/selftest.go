package main

import (
	"encoding/json"
	"fmt"
	"os"
	"path/filepath"
	"strconv"
	"strings"

	"golang.org/x/tools/go/ssa"

	gx "sheensverif/gosym/exec"
)

// Translator validation: the repository's own match table (match/match_test.json, the 56 rows that
// match.TestMatch checks natively) is pushed through the executor, which with concrete inputs is an
// interpreter of the real SSA; every row must give the table's expectation (maps iterated in insertion order).  A disagreement means the executor (or a model) is wrong - or that the
// row's expectation depends on map order - and ends the run INCONCLUSIVE; it never decides a property.

// extraOverlay: generated files added to the load overlay (virtual path under /repo -> content).
var extraOverlay = map[string][]byte{}

type selfRow struct {
	P             json.RawMessage `json:"p"`
	M             json.RawMessage `json:"m"`
	B             json.RawMessage `json:"b"`
	W             json.RawMessage `json:"w"`
	Err           bool            `json:"err"`
	BenchmarkOnly bool            `json:"benchmarkOnly"`
	Title         string          `json:"title"`
}

// genSelfTest reads the table from /repo's working tree and registers the generated harness.
func genSelfTest() (rows int, err error) {
	b, err := os.ReadFile(filepath.Join(repoDir, "match", "match_test.json"))
	if err != nil {
		return 0, err
	}
	var tab []selfRow
	if err := json.Unmarshal(b, &tab); err != nil {
		return 0, err
	}
	var sb strings.Builder
	sb.WriteString("//go:build verif\n\npackage match\n\nimport (\n\t\"encoding/json\"\n\n\t\"github.com/Comcast/sheens/zzverif/verif\"\n)\n\n")
	sb.WriteString("var selfRows = []struct {\n\tp, m, b, w string\n\terr     bool\n}{\n")
	for _, r := range tab {
		if r.BenchmarkOnly {
			continue
		}
		q := func(x json.RawMessage) string {
			if len(x) == 0 {
				return `""`
			}
			return strconv.Quote(string(x))
		}
		fmt.Fprintf(&sb, "\t{%s, %s, %s, %s, %v},\n", q(r.P), q(r.M), q(r.B), q(r.W), r.Err)
		rows++
	}
	sb.WriteString("}\n\n")
	fmt.Fprintf(&sb, `// VerifSelfTest: one table row per path.
func VerifSelfTest() {
	r := selfRows[verif.Choose("row", %d)]
	// concrete inputs, one order: here the executor is an interpreter of the real SSA (iteration orders
	// are the subject of C03, not of this validation)
	verif.MapOrderInsertion(true)
	var p, m interface{}
	var b map[string]interface{}
	var w []map[string]interface{}
	if json.Unmarshal([]byte(r.p), &p) != nil || json.Unmarshal([]byte(r.m), &m) != nil {
		verif.Assert("selftest-row-parses", false)
	}
	if r.b != "" && json.Unmarshal([]byte(r.b), &b) != nil {
		verif.Assert("selftest-row-parses", false)
	}
	if r.w != "" && json.Unmarshal([]byte(r.w), &w) != nil {
		verif.Assert("selftest-row-parses", false)
	}
	bs := Bindings(b)
	if bs == nil {
		bs = make(Bindings)
	}
	bss, err := DefaultMatcher.Match(p, m, bs)
	verif.Assert("selftest-error-as-in-table", (err != nil) == r.err)
	if err == nil {
		verif.Assert("selftest-result-as-in-table", selfSame(bss, w))
	}
	verif.Reach("selftest-row-done")
}

func selfSame(bss []Bindings, w []map[string]interface{}) bool {
	if len(bss) != len(w) {
		return false
	}
	used := make([]bool, len(bss))
	for _, e := range w {
		found := false
		for k, g := range bss {
			if !used[k] && verif.JSONEqual(map[string]interface{}(g), e) {
				used[k] = true
				found = true
				break
			}
		}
		if !found {
			return false
		}
	}
	return true
}
`, rows)
	extraOverlay[filepath.Join(repoDir, "match", "zz_verif_selftest_gen.go")] = []byte(sb.String())
	return rows, nil
}

// runSelfTest executes the generated harness; returns a description for the evidence and a failure text.
func runSelfTest(prog *ssa.Program, rows int, solver string, workers int) (map[string]interface{}, string) {
	p := prog.ImportedPackage(modulePath + "/match")
	if p == nil {
		return nil, "selftest: package match not loaded"
	}
	f := p.Func("VerifSelfTest")
	if f == nil {
		return nil, "selftest: generated harness not found"
	}
	res := gx.Run(gx.Config{Prog: prog, Entry: f, SolverBin: solver, Workers: workers, ModulePath: modulePath,
		OrderInsensitive: orderLemmas(), MaxViolations: 3})
	info := map[string]interface{}{"table": "match/match_test.json", "rows": rows, "paths": res.Stats.Paths,
		"obligations": res.Stats.Asserts, "wall_s": round3(res.Wall.Seconds())}
	if res.EngineErr != "" {
		return info, "selftest: " + res.EngineErr
	}
	if len(res.Violations) > 0 {
		v := res.Violations[0]
		return info, fmt.Sprintf("selftest: the executor disagrees with the repository's match table (%s, row %v)", v.Label, selfRowOf(v.Cex))
	}
	if res.Stats.Reach["selftest-row-done"] < int64(rows) {
		return info, fmt.Sprintf("selftest: only %d of %d rows completed", res.Stats.Reach["selftest-row-done"], rows)
	}
	return info, ""
}

func selfRowOf(c *gx.Cex) interface{} {
	if c == nil {
		return "?"
	}
	for _, in := range c.Inputs {
		if in.Kind == "choose" && in.Name == "row" {
			return in.Int
		}
	}
	return "?"
}

// cmdSelftest: `gosym selftest`.
func cmdSelftest(args []string) int {
	rows, err := genSelfTest()
	if err != nil {
		fmt.Println("INCONCLUSIVE selftest:", err)
		return 3
	}
	prog, _, err := loadProgram([]string{"./match"})
	if err != nil {
		fmt.Println("INCONCLUSIVE selftest:", err)
		return 3
	}
	info, fail := runSelfTest(prog, rows, "z3", 16)
	b, _ := json.Marshal(info)
	fmt.Println("selftest", string(b))
	if fail != "" {
		fmt.Println("INCONCLUSIVE", fail)
		return 3
	}
	fmt.Println("OK selftest")
	return 0
}
