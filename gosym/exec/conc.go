package exec

import (
	"go/types"

	"golang.org/x/tools/go/ssa"
)

// Tier B (goroutines, channels, scheduler) — see sched.go once enabled.

type access struct{}

type Chan struct {
	buf []Value
	cap int
	closed bool
}

type scheduler struct{}

func (s *scheduler) killAll()    {}
func (s *scheduler) finishMain() {}

func (ex *Exec) raceRead(a **access, fr *frame)  {}
func (ex *Exec) raceWrite(a **access, fr *frame) {}

func (ex *Exec) goStmt(fn Value, args []Value, in *ssa.Go, fr *frame) {
	panic(engineErr("go statement not supported in tier A at %s", fr.pos()))
}

func (ex *Exec) makeChan(in *ssa.MakeChan, size Value) Value {
	n, _ := size.(int64)
	return &Chan{cap: int(n)}
}

func (ex *Exec) chanSend(ch, v Value, fr *frame) {
	panic(engineErr("channel send not supported in tier A at %s", fr.pos()))
}

func (ex *Exec) chanRecv(ch Value, commaOk bool, t types.Type, fr *frame) Value {
	panic(engineErr("channel receive not supported in tier A at %s", fr.pos()))
}

func (ex *Exec) chanClose(ch Value, fr *frame) {
	c, _ := ch.(*Chan)
	if c == nil {
		ex.goPanicf("close of nil channel")
	}
	if c.closed {
		ex.goPanicf("close of closed channel")
	}
	c.closed = true
}

func (ex *Exec) selectOp(in *ssa.Select, fr *frame) Value {
	panic(engineErr("select not supported in tier A at %s", fr.pos()))
}

// opaqueMethod dispatches a method call on a model object.
func (ex *Exec) opaqueMethod(op *Opaque, name string, args []Value, caller *frame, m *types.Func) Value {
	if h, ok := opaqueMethods[op.Kind+"."+name]; ok {
		return h(ex, caller, op, args)
	}
	panic(engineErr("no model for method %s on %s", name, op.Kind))
}

var opaqueMethods = map[string]func(ex *Exec, caller *frame, op *Opaque, args []Value) Value{}
