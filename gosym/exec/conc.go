package exec

import (
	"fmt"
	"go/token"
	"go/types"
	"path/filepath"
	"sort"
	"strings"

	"golang.org/x/tools/go/ssa"
)

// Tier B: goroutines, channels, select, timers and a cooperative scheduler.
//
// Every interpreted goroutine runs in its own Go goroutine, but only the holder of the baton executes.
// A goroutine gives the baton up when it blocks (channel operation, select, lock, a model call that
// waits), when it finishes, or at an explicit verif.Yield().  The scheduler then chooses the next
// goroutine among the ready ones - a forked choice, so every order is explored - or, if none is ready,
// lets the environment act (the earliest pending timer fires, a cancellable context ends).  No ready
// goroutine and no environment action while the main goroutine is blocked is a deadlock outcome.

// ---- happens-before data-race detection (vector clocks) ----
//
// Every goroutine carries a vector clock; release/acquire pairs (go statement, mutex unlock->lock, channel
// send/close->receive, WaitGroup Done->Wait, atomic store->load, timer creation->firing) join clocks.  Each
// memory cell / map remembers its last write and the reads since; an access by another goroutine that is not
// ordered after them is a data race - what the Go race detector reports on a schedule that performs both
// accesses, whatever their timing.  The edges are over-approximated where that is simpler (a channel or lock
// carries the join of everything released on it), which can only hide races, never invent one.
// Accesses made by harness code (zz_verif_* files) are not reported: harnesses observe results after a
// pause, as a test would.

type vclock map[int]int

func (v vclock) join(o vclock) {
	for k, c := range o {
		if c > v[k] {
			v[k] = c
		}
	}
}

func (v vclock) clone() vclock {
	n := make(vclock, len(v)+1)
	for k, c := range v {
		n[k] = c
	}
	return n
}

type accessRec struct {
	gid, clk int
	pos      string
	harness  bool
}

type access struct {
	w     accessRec
	hasW  bool
	reads []accessRec
}

// RaceReport: two unordered accesses, at least one a write, both in code under test.
type RaceReport struct {
	Kind          string // write-write, write-read, read-write
	First, Second string
}

func (ex *Exec) curRec(fr *frame) (accessRec, *goroutine) {
	g := ex.sched.cur
	r := accessRec{gid: g.id, clk: g.vc[g.id]}
	if fr != nil && fr.fn != nil {
		r.pos = fr.fn.String() + "@" + fr.pos()
		r.harness = ex.isHarnessFn(fr.fn)
	} else {
		r.harness = true
	}
	return r, g
}

func (ex *Exec) isHarnessFn(fn *ssa.Function) bool {
	if ex.harnessFn == nil {
		ex.harnessFn = map[*ssa.Function]bool{}
	}
	if h, ok := ex.harnessFn[fn]; ok {
		return h
	}
	root := fn
	for root.Parent() != nil {
		root = root.Parent()
	}
	h := false
	if root.Pkg != nil && strings.Contains(root.Pkg.Pkg.Path(), "/zzverif/") {
		h = true
	} else if root.Prog != nil && root.Pos().IsValid() {
		h = strings.HasPrefix(filepath.Base(root.Prog.Fset.Position(root.Pos()).Filename), "zz_verif")
	} else if root.Synthetic != "" {
		h = false
	}
	ex.harnessFn[fn] = h
	return h
}

func (ex *Exec) unordered(prev accessRec, g *goroutine) bool {
	return prev.gid != g.id && prev.clk > g.vc[prev.gid]
}

func (ex *Exec) reportRace(kind string, prev, cur accessRec) {
	if prev.harness || cur.harness {
		return
	}
	for _, r := range ex.races {
		if r.First == prev.pos && r.Second == cur.pos {
			return
		}
	}
	ex.races = append(ex.races, RaceReport{Kind: kind, First: prev.pos, Second: cur.pos})
	ex.note("race-detected")
}

func (ex *Exec) raceRead(a **access, fr *frame) {
	s := ex.sched
	if s == nil || len(s.gs) < 2 {
		return
	}
	if *a == nil {
		*a = &access{}
	}
	ac := *a
	cur, g := ex.curRec(fr)
	if ac.hasW && ex.unordered(ac.w, g) {
		ex.reportRace("write-read", ac.w, cur)
	}
	for i := range ac.reads {
		if ac.reads[i].gid == g.id {
			ac.reads[i] = cur
			return
		}
	}
	ac.reads = append(ac.reads, cur)
}

func (ex *Exec) raceWrite(a **access, fr *frame) {
	s := ex.sched
	if s == nil || len(s.gs) < 2 {
		return
	}
	if *a == nil {
		*a = &access{}
	}
	ac := *a
	cur, g := ex.curRec(fr)
	if ac.hasW && ex.unordered(ac.w, g) {
		ex.reportRace("write-write", ac.w, cur)
	}
	for _, r := range ac.reads {
		if ex.unordered(r, g) {
			ex.reportRace("read-write", r, cur)
		}
	}
	ac.w, ac.hasW, ac.reads = cur, true, ac.reads[:0]
}

// release: the current goroutine publishes its clock into a synchronisation object's clock.
func (ex *Exec) release(into *vclock) {
	s := ex.sched
	if s == nil {
		return
	}
	g := s.cur
	if *into == nil {
		*into = vclock{}
	}
	into.join(g.vc)
	g.vc[g.id]++
}

// acquire: the current goroutine learns everything released into the object.
func (ex *Exec) acquire(from vclock) {
	s := ex.sched
	if s == nil || from == nil {
		return
	}
	s.cur.vc.join(from)
}

type Chan struct {
	ID     int
	cap    int
	buf    []Value
	closed bool
	// senders blocked on an unbuffered/full channel
	sendq []*sendWait
	// recvWaiting counts receivers currently blocked (for unbuffered rendezvous)
	recvWaiting int
	elem        types.Type
	timer       *timerObj
	vc          vclock // race detection: join of the clocks of everything sent / closed on it
}

type sendWait struct {
	v     Value
	taken bool
	g     *goroutine
}

type timerObj struct {
	id      int
	due     Value // int64 nanoseconds of the model clock, or a symbolic 64-bit term
	ch      *Chan
	fired   bool
	stopped bool
	fn      Value  // AfterFunc callback
	vc      vclock // clock of the creator at creation
}

type goroutine struct {
	id      int
	name    string
	wake    chan bool
	ready   func() bool // nil: runnable
	done    bool
	isMain  bool
	started bool
	start   func()
	vc      vclock
}

type killSignal struct{}

type scheduler struct {
	ex       *Exec
	gs       []*goroutine
	cur      *goroutine
	killed   bool
	abort    interface{} // engine signal raised inside a non-main goroutine
	timers   []*timerObj
	now      Value     // the logical clock: int64, or a symbolic term once a symbolic due time was reached
	ctxs     []*Opaque // cancellable contexts the environment may end
	nextID   int
	switches int
}

func (ex *Exec) scheduler() *scheduler {
	if ex.sched == nil {
		s := &scheduler{ex: ex, now: int64(1_000_000_000)}
		main := &goroutine{id: 0, name: "main", wake: make(chan bool), isMain: true, started: true, vc: vclock{0: 1}}
		s.gs = []*goroutine{main}
		s.cur = main
		ex.sched = s
	}
	return ex.sched
}

func (s *scheduler) killAll() {
	s.killed = true
	for _, g := range s.gs {
		if !g.isMain && g.started && !g.done {
			select {
			case g.wake <- true:
			default:
			}
		}
	}
}

// readyList: goroutines that can run now (excluding none).
func (s *scheduler) readyList() []*goroutine {
	var r []*goroutine
	for _, g := range s.gs {
		if g.done {
			continue
		}
		if g.ready == nil || g.ready() {
			r = append(r, g)
		}
	}
	return r
}

// envStep lets the environment act once; returns false if nothing is pending.
func (s *scheduler) envStep() bool {
	ex := s.ex
	type ev struct {
		kind string
		t    *timerObj
		c    *Opaque
	}
	var evs []ev
	// earliest pending timer(s): timers due at the same instant expire together - all of them fire before any
	// woken goroutine runs, and the scheduler then explores every order of the woken goroutines (so a request
	// can land between a timer's expiry and its goroutine's reaction)
	// the earliest: a pending timer no other pending timer is strictly before (with symbolic due times the
	// comparisons are decided by the solver, forking over the feasible orders); then everything tied with it
	var first *timerObj
	for _, t := range s.timers {
		if t.fired || t.stopped {
			continue
		}
		if first == nil || ex.branch("timer-before", ex.i64(token.LSS, t.due, first.due)) {
			first = t
		}
	}
	var due []*timerObj
	if first != nil {
		for _, t := range s.timers {
			if t.fired || t.stopped {
				continue
			}
			if t == first || ex.branch("timer-tie", ex.i64(token.EQL, t.due, first.due)) {
				due = append(due, t)
			}
		}
	}
	if len(due) > 0 {
		evs = append(evs, ev{kind: "timer"})
	}
	for _, c := range s.ctxs {
		if done, _ := c.Fields["done"].(bool); !done {
			if can, _ := c.Fields["envCancellable"].(bool); can {
				evs = append(evs, ev{kind: "ctx", c: c})
			}
		}
	}
	if len(evs) == 0 {
		return false
	}
	i := 0
	if len(evs) > 1 {
		i = ex.chooseN("env", len(evs))
	}
	e := evs[i]
	switch e.kind {
	case "timer":
		for _, t := range due {
			s.fireTimer(t)
		}
	case "ctx":
		ex.cancelCtx(e.c, "context deadline exceeded")
	}
	return true
}

func (s *scheduler) fireTimer(t *timerObj) {
	if s.ex.branch("clock-advances", s.ex.i64(token.GTR, t.due, s.now)) {
		s.now = t.due
	}
	t.fired = true
	if t.ch != nil {
		t.ch.buf = append(t.ch.buf, s.ex.timeValue(s.now))
		if t.vc != nil {
			if t.ch.vc == nil {
				t.ch.vc = vclock{}
			}
			t.ch.vc.join(t.vc)
		}
	}
	if t.fn != nil {
		s.ex.spawnVC = t.vc
		s.ex.spawn(t.fn, nil, "afterfunc")
	}
	s.ex.note("timer-fired")
}

// block parks the current goroutine until pred holds, running others meanwhile.
func (s *scheduler) block(pred func() bool, what string) {
	g := s.cur
	g.ready = pred
	s.dispatch(g, what)
	g.ready = nil
}

// yield offers the baton to the others (g stays runnable).
func (s *scheduler) yield(what string) {
	g := s.cur
	g.ready = nil
	if len(s.readyList()) <= 1 {
		return
	}
	s.dispatch(g, what)
}

// dispatch picks the next goroutine; returns when g holds the baton again.
func (s *scheduler) dispatch(g *goroutine, what string) {
	ex := s.ex
	for {
		rl := s.readyList()
		if len(rl) == 0 {
			if s.envStep() {
				continue
			}
			// nothing can run
			if g.isMain || !s.mainDone() {
				ex.deadlock(what)
			}
		}
		sort.SliceStable(rl, func(i, j int) bool { return rl[i].id < rl[j].id })
		idx := 0
		if len(rl) > 1 {
			s.switches++
			if s.switches > 64 {
				panic(engineErr("scheduler: more than 64 scheduling choices on one path"))
			}
			idx = ex.chooseN("sched@"+what, len(rl))
		}
		next := rl[idx]
		if next == g {
			return
		}
		s.cur = next
		if !next.started {
			next.started = true
			go next.start()
		} else {
			next.wake <- true
		}
		// wait for the baton
		<-g.wake
		if s.killed {
			panic(killSignal{})
		}
		if s.abort != nil && g.isMain {
			a := s.abort
			s.abort = nil
			panic(a)
		}
		s.cur = g
		if g.ready == nil || g.ready() {
			return
		}
	}
}

func (s *scheduler) mainDone() bool { return s.gs[0].done }

func (ex *Exec) deadlock(what string) {
	if ex.replaying() {
		panic(pathEnd{"deadlock"})
	}
	ex.violation("deadlock", "no-deadlock", "all goroutines blocked at "+what+" and no timer or context can fire", nil, "")
	panic(pathEnd{"deadlock"})
}

// spawn creates a goroutine running fn(args).
func (ex *Exec) spawn(fn Value, args []Value, name string) *goroutine {
	s := ex.scheduler()
	s.nextID++
	g := &goroutine{id: s.nextID, name: name, wake: make(chan bool)}
	// the go statement happens before everything the new goroutine does
	parent := s.cur.vc
	if ex.spawnVC != nil {
		parent, ex.spawnVC = ex.spawnVC, nil
	}
	g.vc = parent.clone()
	g.vc[g.id] = 1
	s.cur.vc[s.cur.id]++
	g.start = func() {
		defer func() {
			r := recover()
			g.done = true
			if r != nil {
				if _, ok := r.(killSignal); ok {
					return
				}
				// engine signals and uncaught interpreted panics are delivered to main
				if gp, isGo := r.(goPanic); isGo {
					r = goPanic{val: gp.val, msg: "in goroutine " + g.name + ": " + gp.msg}
				}
				s.abort = r
				s.gs[0].wake <- true
				return
			}
			// hand the baton on
			s.afterExit(g)
		}()
		ex.call(fn, args, nil, nil)
	}
	s.gs = append(s.gs, g)
	return g
}

// afterExit: a finished goroutine passes the baton.
func (s *scheduler) afterExit(g *goroutine) {
	for {
		rl := s.readyList()
		if len(rl) == 0 {
			if s.envStep() {
				continue
			}
			// wake main so it can notice the deadlock / finish
			s.cur = s.gs[0]
			s.gs[0].wake <- true
			return
		}
		sort.SliceStable(rl, func(i, j int) bool { return rl[i].id < rl[j].id })
		idx := 0
		if len(rl) > 1 {
			idx = s.ex.chooseN("sched@exit", len(rl))
		}
		next := rl[idx]
		s.cur = next
		if !next.started {
			next.started = true
			go next.start()
		} else {
			next.wake <- true
		}
		return
	}
}

// finishMain: the harness returned; let every runnable goroutine finish.
func (s *scheduler) finishMain() {
	s.quiesce()
}

// quiesce runs the other goroutines until none is ready (without letting the environment act).
// Returns the number of goroutines still blocked.
func (s *scheduler) quiesce() int {
	g := s.cur
	for {
		others := 0
		for _, o := range s.readyList() {
			if o != g {
				others++
			}
		}
		if others == 0 {
			break
		}
		// park main until the others cannot run any more
		g.ready = func() bool {
			for _, o := range s.gs {
				if o != g && !o.done && (o.ready == nil || o.ready()) {
					return false
				}
			}
			return true
		}
		s.dispatchNoEnv(g)
		g.ready = nil
	}
	blocked := 0
	for _, o := range s.gs {
		if o != g && !o.done {
			blocked++
		}
	}
	return blocked
}

func (s *scheduler) dispatchNoEnv(g *goroutine) {
	for {
		var rl []*goroutine
		for _, o := range s.readyList() {
			rl = append(rl, o)
		}
		if len(rl) == 0 {
			return
		}
		sort.SliceStable(rl, func(i, j int) bool { return rl[i].id < rl[j].id })
		idx := 0
		if len(rl) > 1 {
			idx = s.ex.chooseN("sched@quiesce", len(rl))
		}
		next := rl[idx]
		if next == g {
			return
		}
		s.cur = next
		if !next.started {
			next.started = true
			go next.start()
		} else {
			next.wake <- true
		}
		<-g.wake
		if s.killed {
			panic(killSignal{})
		}
		if s.abort != nil {
			a := s.abort
			s.abort = nil
			panic(a)
		}
		s.cur = g
		if g.ready == nil || g.ready() {
			return
		}
	}
}

func (ex *Exec) goStmt(fn Value, args []Value, in *ssa.Go, fr *frame) {
	name := "go@" + fr.shortPos(in)
	ex.spawn(fn, args, name)
	ex.note("goroutine-spawned")
	if ex.preemptAtGo {
		// the new goroutine may run before the statement after `go`: a scheduling point
		ex.scheduler().yield("go@" + fr.shortPos(in))
	}
}

func (ex *Exec) makeChan(in *ssa.MakeChan, size Value) Value {
	n, _ := size.(int64)
	ex.nextID++
	return &Chan{ID: ex.nextID, cap: int(n), elem: in.Type().Underlying().(*types.Chan).Elem()}
}

func (ex *Exec) newChan(cap int, elem types.Type) *Chan {
	ex.nextID++
	return &Chan{ID: ex.nextID, cap: cap, elem: elem}
}

// canRecv: a receive on c would not block.
func (c *Chan) canRecv() bool {
	if c == nil {
		return false
	}
	if len(c.buf) > 0 || c.closed {
		return true
	}
	for _, s := range c.sendq {
		if !s.taken {
			return true
		}
	}
	return false
}

func (c *Chan) canSend() bool {
	if c == nil {
		return false
	}
	if c.closed {
		return true // will panic
	}
	if len(c.buf) < c.cap {
		return true
	}
	return c.cap == 0 && c.recvWaiting > 0
}

func (ex *Exec) doRecv(c *Chan) (Value, bool) {
	ex.acquire(c.vc)
	if len(c.buf) > 0 {
		v := c.buf[0]
		c.buf = c.buf[1:]
		// a blocked sender on a full buffered channel can now proceed
		for _, s := range c.sendq {
			if !s.taken && len(c.buf) < c.cap {
				s.taken = true
				c.buf = append(c.buf, s.v)
			}
		}
		return v, true
	}
	for _, s := range c.sendq {
		if !s.taken {
			s.taken = true
			return s.v, true
		}
	}
	if c.closed {
		var z Value
		if c.elem != nil {
			z = zero(c.elem)
		}
		return z, false
	}
	panic(engineErr("doRecv on a channel that is not ready"))
}

func (ex *Exec) chanRecv(ch Value, commaOk bool, t types.Type, fr *frame) Value {
	c, _ := ch.(*Chan)
	s := ex.scheduler()
	if c == nil {
		s.block(func() bool { return false }, "recv-nil-chan")
	}
	if !c.canRecv() {
		c.recvWaiting++
		s.block(func() bool { return c.canRecv() }, "recv@"+fr.shortPosSafe())
		c.recvWaiting--
	}
	v, ok := ex.doRecv(c)
	if commaOk {
		return Tuple{v, ok}
	}
	return v
}

func (fr *frame) shortPosSafe() string {
	if fr == nil || fr.curInstr == nil {
		return "?"
	}
	return fr.shortPos(fr.curInstr)
}

func (ex *Exec) chanSend(ch, v Value, fr *frame) {
	c, _ := ch.(*Chan)
	s := ex.scheduler()
	if c == nil {
		s.block(func() bool { return false }, "send-nil-chan")
	}
	if c.closed {
		ex.goPanicf("send on closed channel")
	}
	ex.release(&c.vc)
	if len(c.buf) < c.cap {
		c.buf = append(c.buf, v)
		return
	}
	// rendezvous / full buffer: wait until a receiver takes the value
	w := &sendWait{v: v, g: s.cur}
	c.sendq = append(c.sendq, w)
	s.block(func() bool { return w.taken || c.closed }, "send@"+fr.shortPosSafe())
	if !w.taken && c.closed {
		ex.goPanicf("send on closed channel")
	}
	// drop the entry
	for i, x := range c.sendq {
		if x == w {
			c.sendq = append(c.sendq[:i], c.sendq[i+1:]...)
			break
		}
	}
}

func (ex *Exec) chanClose(ch Value, fr *frame) {
	c, _ := ch.(*Chan)
	if c == nil {
		ex.goPanicf("close of nil channel")
	}
	if c.closed {
		ex.goPanicf("close of closed channel")
	}
	ex.release(&c.vc)
	c.closed = true
}

// selectOp implements the select statement.
func (ex *Exec) selectOp(in *ssa.Select, fr *frame) Value {
	s := ex.scheduler()
	type st struct {
		c    *Chan
		send bool
		v    Value
	}
	var states []st
	for _, sc := range in.States {
		c, _ := fr.get(sc.Chan).(*Chan)
		x := st{c: c, send: sc.Dir == types.SendOnly}
		if x.send {
			x.v = fr.get(sc.Send)
		}
		states = append(states, x)
	}
	readyIdx := func() []int {
		var r []int
		for i, x := range states {
			if x.c == nil {
				continue
			}
			if x.send {
				if x.c.canSend() {
					r = append(r, i)
				}
			} else if x.c.canRecv() {
				r = append(r, i)
			}
		}
		return r
	}
	ri := readyIdx()
	if len(ri) == 0 {
		if !in.Blocking {
			return ex.selectResult(in, -1, nil, false)
		}
		for _, x := range states {
			if x.c != nil && !x.send {
				x.c.recvWaiting++
			}
		}
		s.block(func() bool { return len(readyIdx()) > 0 }, "select@"+fr.shortPosSafe())
		for _, x := range states {
			if x.c != nil && !x.send {
				x.c.recvWaiting--
			}
		}
		ri = readyIdx()
	}
	pick := ri[0]
	if len(ri) > 1 {
		// Go chooses uniformly among the ready cases: every choice is explored
		pick = ri[ex.chooseN("select@"+fr.shortPosSafe(), len(ri))]
	}
	x := states[pick]
	if x.send {
		if x.c.closed {
			ex.goPanicf("send on closed channel")
		}
		if len(x.c.buf) < x.c.cap {
			x.c.buf = append(x.c.buf, x.v)
		} else {
			// rendezvous with a waiting receiver: hand over through the send queue
			w := &sendWait{v: x.v, g: s.cur}
			x.c.sendq = append(x.c.sendq, w)
			s.block(func() bool { return w.taken }, "select-send")
			for i, y := range x.c.sendq {
				if y == w {
					x.c.sendq = append(x.c.sendq[:i], x.c.sendq[i+1:]...)
					break
				}
			}
		}
		return ex.selectResult(in, pick, nil, false)
	}
	v, ok := ex.doRecv(x.c)
	return ex.selectResult(in, pick, v, ok)
}

func (ex *Exec) selectResult(in *ssa.Select, idx int, recv Value, recvOk bool) Value {
	tt := in.Type().(*types.Tuple)
	res := make(Tuple, tt.Len())
	res[0] = int64(idx)
	res[1] = recvOk
	// one slot per receive case, in order
	k := 2
	for i, sc := range in.States {
		if sc.Dir == types.RecvOnly {
			if i == idx && recv != nil {
				res[k] = recv
			} else {
				res[k] = zero(tt.At(k).Type())
			}
			k++
		}
	}
	return res
}

// opaqueMethod dispatches a method call on a model object.
func (ex *Exec) opaqueMethod(op *Opaque, name string, args []Value, caller *frame, m *types.Func) Value {
	if h, ok := opaqueMethods[op.Kind+"."+name]; ok {
		return h(ex, caller, op, args)
	}
	panic(engineErr("no model for method %s on %s", name, op.Kind))
}

var opaqueMethods = map[string]func(ex *Exec, caller *frame, op *Opaque, args []Value) Value{}

func (ex *Exec) timeValue(ns Value) Value {
	return ex.mkTime(ns)
}

var _ = fmt.Sprintf
