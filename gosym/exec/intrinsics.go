package exec

import (
	"fmt"
	"go/types"
	"math"
	"strings"

	"golang.org/x/tools/go/ssa"

	"sheensverif/gosym/smt"
)

type handler func(ex *Exec, caller *frame, fn *ssa.Function, args []Value) Value

const verifPkg = "github.com/Comcast/sheens/zzverif/verif"

var intercepts = map[string]handler{}

func init() {
	v := func(name string, h handler) { intercepts[verifPkg+"."+name] = h }
	v("AnyJSON", hAnyJSON)
	v("AnyMap", hAnyMap)
	v("AnyString", hAnyString)
	v("AnyInt", hAnyInt)
	v("AnyBool", hAnyBool)
	v("AnyFloat", hAnyFloat)
	v("Choose", hChoose)
	v("Assume", func(ex *Exec, c *frame, fn *ssa.Function, a []Value) Value {
		if ex.replaying() {
			switch x := a[0].(type) {
			case bool:
				if !x {
					panic(pathEnd{"pruned"})
				}
			case *smt.Term:
				ex.addPC(x)
			}
			return nil
		}
		ex.assume(a[0])
		return nil
	})
	v("Assert", func(ex *Exec, c *frame, fn *ssa.Function, a []Value) Value {
		label := mustStr(a[0])
		if ex.replaying() {
			ex.nAsserts++
			switch x := a[1].(type) {
			case bool:
				if !x {
					panic(pathEnd{"violation"})
				}
			case *smt.Term:
				ex.addPC(x)
			}
			return nil
		}
		ex.assertObl(label, a[1], c.pos())
		return nil
	})
	v("Reach", func(ex *Exec, c *frame, fn *ssa.Function, a []Value) Value {
		label := mustStr(a[0])
		if _, seen := ex.reach[label]; !seen {
			if !ex.replaying() && ex.eng.wantReachCex(label) {
				// the first witness of a label is a verified model of the whole path condition
				m, ok := ex.model(nil)
				if !ok {
					panic(pathEnd{"infeasible"})
				}
				cx := ex.buildCex(m)
				cx.Label, cx.Kind = label, "reach"
				ex.reach[label] = cx
			} else {
				ex.reach[label] = nil
			}
		}
		return nil
	})
	v("Tier", func(ex *Exec, c *frame, fn *ssa.Function, a []Value) Value { return int64(ex.cfg.Tier) })
	v("Symbolic", func(ex *Exec, c *frame, fn *ssa.Function, a []Value) Value { return true })
	v("Known", func(ex *Exec, c *frame, fn *ssa.Function, a []Value) Value { return ex.cfg.Known[mustStr(a[0])] })
	v("Freeze", func(ex *Exec, c *frame, fn *ssa.Function, a []Value) Value {
		ex.freeze(a[0], &Owner{Tag: mustStr(a[1])}, map[interface{}]bool{})
		return nil
	})
	v("AssertNoWrites", func(ex *Exec, c *frame, fn *ssa.Function, a []Value) Value {
		label := mustStr(a[0])
		tagsSl := a[1].(Slice)
		want := map[string]bool{}
		for i := 0; i < tagsSl.Len; i++ {
			want[mustStr(tagsSl.Arr.E[tagsSl.Off+i].V)] = true
		}
		ex.nAsserts++
		for _, w := range ex.writes {
			if want[w.tag] {
				if !ex.replaying() {
					ex.violation("write", label, fmt.Sprintf("write to frozen %q at %s", w.tag, w.pos), nil, w.pos)
				}
				panic(pathEnd{"violation"})
			}
		}
		ex.nConcrete++
		return nil
	})
	v("SameObject", func(ex *Exec, c *frame, fn *ssa.Function, a []Value) Value {
		return ex.sameObject(a[0], a[1])
	})
	v("JSONEqual", func(ex *Exec, c *frame, fn *ssa.Function, a []Value) Value {
		return ex.jsonEqual(a[0], a[1], c)
	})
	v("Keys", func(ex *Exec, c *frame, fn *ssa.Function, a []Value) Value {
		m, _ := a[0].(*Map)
		arr := &Array{}
		if m != nil {
			ex.forceMap(m)
			for _, e := range m.live() {
				arr.E = append(arr.E, &Cell{V: e.K})
			}
		}
		return Slice{Arr: arr, Len: len(arr.E), Cap: len(arr.E)}
	})
	v("MapOrderInsertion", func(ex *Exec, c *frame, fn *ssa.Function, a []Value) Value {
		ex.mapOrderInsertion = a[0].(bool)
		return nil
	})
	v("Quiesce", func(ex *Exec, c *frame, fn *ssa.Function, a []Value) Value {
		return int64(ex.scheduler().quiesce())
	})
	v("Yield", func(ex *Exec, c *frame, fn *ssa.Function, a []Value) Value {
		ex.scheduler().yield("yield")
		return nil
	})
	// PreemptAtGo(on): every `go` statement becomes a scheduling point (the new goroutine may run first).
	v("PreemptAtGo", func(ex *Exec, c *frame, fn *ssa.Function, a []Value) Value {
		ex.preemptAtGo = a[0].(bool)
		return nil
	})
	// PreemptAtLocks(on): every lock acquisition (also an uncontended one) is preceded by a scheduling point.
	v("PreemptAtLocks", func(ex *Exec, c *frame, fn *ssa.Function, a []Value) Value {
		ex.preemptAtLocks = a[0].(bool)
		return nil
	})
	v("AtomicOps", func(ex *Exec, c *frame, fn *ssa.Function, a []Value) Value { return int64(ex.atomicOps) })
	// RaceReports(): the data races seen so far on this path (both accesses in code under test), one string
	// "kind: first-access-position / second-access-position" each.
	v("RaceReports", func(ex *Exec, c *frame, fn *ssa.Function, a []Value) Value {
		arr := &Array{}
		for _, r := range ex.races {
			arr.E = append(arr.E, &Cell{V: r.Kind + ": " + r.First + " / " + r.Second})
		}
		return Slice{Arr: arr, Len: len(arr.E), Cap: len(arr.E)}
	})
	// FreezeGlobals(tag, pkgs...): every package-level variable of the named module packages (and what they
	// reach) is frozen under tag.
	v("FreezeGlobals", func(ex *Exec, c *frame, fn *ssa.Function, a []Value) Value {
		o := &Owner{Tag: mustStr(a[0])}
		sl := a[1].(Slice)
		seen := map[interface{}]bool{}
		for i := 0; i < sl.Len; i++ {
			path := mustStr(sl.Arr.E[sl.Off+i].V)
			p := ex.prog.ImportedPackage(path)
			if p == nil {
				panic(engineErr("FreezeGlobals: package %s not loaded", path))
			}
			ex.ensureInit(p)
			for _, m := range p.Members {
				if g, ok := m.(*ssa.Global); ok && g.Name() != "init$guard" {
					if strings.HasPrefix(g.Name(), "verif") {
						continue
					}
					ex.freeze(ex.global(g), o, seen)
				}
			}
		}
		return nil
	})
	// PrintLog: the fmt.Fprintf calls made so far as (format, args) events
	v("PrintLog", func(ex *Exec, c *frame, fn *ssa.Function, a []Value) Value {
		arr := &Array{}
		for _, l := range ex.logs {
			t := l.(Tuple)
			args, _ := t[1].(Slice)
			ev := &Struct{F: []*Cell{{V: t[0]}, {V: args}}}
			arr.E = append(arr.E, &Cell{V: ev})
		}
		return Slice{Arr: arr, Len: len(arr.E), Cap: len(arr.E)}
	})
	v("ExploreMapOrderIn", func(ex *Exec, c *frame, fn *ssa.Function, a []Value) Value {
		sl := a[0].(Slice)
		if sl.Len == 0 {
			ex.orderOnly = nil
			return nil
		}
		ex.orderOnly = map[string]bool{}
		for i := 0; i < sl.Len; i++ {
			ex.orderOnly[mustStr(sl.Arr.E[sl.Off+i].V)] = true
		}
		return nil
	})
	// JSONText(x): the JSON text of x (natively json.Marshal); symbolically an opaque text that the
	// encoding/json model can decode again and that is compared structurally
	v("JSONText", func(ex *Exec, c *frame, fn *ssa.Function, a []Value) Value {
		v, failed := ex.jsonEncodeValue(a[0], c, 0)
		if failed != "" {
			panic(pathEnd{"pruned"}) // not serialisable: outside the harness' quantifier
		}
		return &EncStr{v: v}
	})
	v("NoOrderLemma", func(ex *Exec, c *frame, fn *ssa.Function, a []Value) Value {
		ex.noOrderLemma = a[0].(bool)
		return nil
	})
	v("Bound", func(ex *Exec, c *frame, fn *ssa.Function, a []Value) Value {
		ex.bounds[mustStr(a[0])] = showBound(a[1])
		return nil
	})
	v("Note", func(ex *Exec, c *frame, fn *ssa.Function, a []Value) Value {
		ex.note(mustStr(a[0]))
		return nil
	})
	v("NaN", func(ex *Exec, c *frame, fn *ssa.Function, a []Value) Value { return math.NaN() })
	v("IsNaN", func(ex *Exec, c *frame, fn *ssa.Function, a []Value) Value {
		switch x := a[0].(type) {
		case float64:
			return x != x
		case *smt.Term:
			return smt.FPIsNaN(x)
		}
		panic(engineErr("IsNaN on %T", a[0]))
	})
	// Possible(c): false iff c is false on this path by constant folding or by a literal already in the
	// path condition (no solver call, no fork); natively it is c itself.
	v("Possible", func(ex *Exec, c *frame, fn *ssa.Function, a []Value) Value {
		switch cv := a[0].(type) {
		case bool:
			return cv
		case *smt.Term:
			if cv.S == "false" || ex.pcSet[smt.Not(cv).S] {
				return false
			}
			return true
		}
		panic(engineErr("Possible on %T", a[0]))
	})
	v("IteBool", func(ex *Exec, c *frame, fn *ssa.Function, a []Value) Value {
		return orV(andV(a[0], a[1]), andV(notV(a[0]), a[2]))
	})
	v("IteInt", func(ex *Exec, c *frame, fn *ssa.Function, a []Value) Value {
		switch cv := a[0].(type) {
		case bool:
			if cv {
				return a[1]
			}
			return a[2]
		case *smt.Term:
			return smt.Ite(cv, toTermAuto(a[1]), toTermAuto(a[2]))
		}
		panic(engineErr("IteInt cond %T", a[0]))
	})
	v("IteStr", func(ex *Exec, c *frame, fn *ssa.Function, a []Value) Value {
		switch cv := a[0].(type) {
		case bool:
			if cv {
				return a[1]
			}
			return a[2]
		case *smt.Term:
			x, y := toSym(a[1]), toSym(a[2])
			n := len(x.Ch)
			if len(y.Ch) > n {
				n = len(y.Ch)
			}
			r := &SymStr{Len: smt.Ite(cv, x.Len, y.Len), Ch: make([]*smt.Term, n)}
			for i := range r.Ch {
				r.Ch[i] = smt.Ite(cv, x.at(i), y.at(i))
			}
			return r
		}
		panic(engineErr("IteStr cond %T", a[0]))
	})
	// SuffixFrom(s, n): s[n:] when len(s) >= n, "" otherwise (total)
	v("SuffixFrom", func(ex *Exec, c *frame, fn *ssa.Function, a []Value) Value {
		n := int(a[1].(int64))
		if cs, ok := a[0].(string); ok {
			if len(cs) < n {
				return ""
			}
			return cs[n:]
		}
		s := toSym(a[0])
		r := strSuffixFrom(s, n)
		if _, isConst := constLen(r); !isConst {
			r = &SymStr{Len: smt.Ite(smt.BVCmp("bvuge", s.Len, bv8(n)), r.Len, bv8(0)), Ch: r.Ch}
		}
		return r
	})
	v("And", func(ex *Exec, c *frame, fn *ssa.Function, a []Value) Value { return andV(a[0], a[1]) })
	v("Or", func(ex *Exec, c *frame, fn *ssa.Function, a []Value) Value { return orV(a[0], a[1]) })
	v("Not", func(ex *Exec, c *frame, fn *ssa.Function, a []Value) Value { return notV(a[0]) })
	v("Implies", func(ex *Exec, c *frame, fn *ssa.Function, a []Value) Value { return orV(notV(a[0]), a[1]) })

	// ---- std models ----
	intercepts["strings.HasPrefix"] = func(ex *Exec, c *frame, fn *ssa.Function, a []Value) Value {
		return strHasPrefix(a[0], a[1])
	}
	intercepts["strings.HasSuffix"] = func(ex *Exec, c *frame, fn *ssa.Function, a []Value) Value {
		return strHasSuffix(a[0], a[1])
	}
	intercepts["strings.Contains"] = func(ex *Exec, c *frame, fn *ssa.Function, a []Value) Value {
		return strings.Contains(mustStr(a[0]), mustStr(a[1]))
	}
	intercepts["strings.Index"] = func(ex *Exec, c *frame, fn *ssa.Function, a []Value) Value {
		return int64(strings.Index(mustStr(a[0]), mustStr(a[1])))
	}
	// strings.Map on a concrete string: the mapping function is called rune by rune (its real code runs)
	intercepts["strings.Map"] = func(ex *Exec, c *frame, fn *ssa.Function, a []Value) Value {
		str, ok := a[1].(string)
		if !ok {
			panic(engineErr("strings.Map of a symbolic string"))
		}
		var out []rune
		for _, r := range str {
			res, isInt := ex.call(a[0], []Value{int64(r)}, nil, c).(int64)
			if !isInt {
				panic(engineErr("strings.Map: symbolic mapping result"))
			}
			if res >= 0 {
				out = append(out, rune(res))
			}
		}
		return string(out)
	}
	intercepts["strings.TrimSpace"] = func(ex *Exec, c *frame, fn *ssa.Function, a []Value) Value {
		return strings.TrimSpace(mustStr(a[0]))
	}
	intercepts["strings.ToLower"] = func(ex *Exec, c *frame, fn *ssa.Function, a []Value) Value {
		return strings.ToLower(mustStr(a[0]))
	}
	intercepts["strings.Replace"] = func(ex *Exec, c *frame, fn *ssa.Function, a []Value) Value {
		n, _ := a[3].(int64)
		s, ok1 := a[0].(string)
		o, ok2 := a[1].(string)
		nw, ok3 := a[2].(string)
		if ok1 && ok2 && ok3 {
			return strings.Replace(s, o, nw, int(n))
		}
		// fresh string: formatting is not the subject
		return ex.freshString("replace")
	}
	// fmt / log: formatting is never the subject
	sprintf := func(ex *Exec, c *frame, fn *ssa.Function, a []Value) Value {
		f, ok := a[0].(string)
		if ok && !strings.Contains(f, "%") {
			return f
		}
		// concrete format and concrete scalar arguments: format for real
		if ok && len(a) > 1 {
			if sl, isSl := a[1].(Slice); isSl {
				args := make([]interface{}, 0, sl.Len)
				all := true
				for i := 0; i < sl.Len && all; i++ {
					iv, isI := sl.Arr.E[sl.Off+i].V.(Iface)
					if !isI {
						all = false
						break
					}
					switch v := iv.V.(type) {
					case string, bool, float64:
						args = append(args, v)
					case int64:
						args = append(args, v)
					default:
						if iv.T == nil {
							args = append(args, nil)
						} else {
							all = false
						}
					}
				}
				if all {
					return fmt.Sprintf(f, args...)
				}
			}
		}
		return ex.freshString("fmt")
	}
	intercepts["fmt.Sprintf"] = sprintf
	intercepts["fmt.Sprint"] = func(ex *Exec, c *frame, fn *ssa.Function, a []Value) Value { return ex.freshString("fmt") }
	intercepts["fmt.Sprintln"] = intercepts["fmt.Sprint"]
	intercepts["fmt.Errorf"] = func(ex *Exec, c *frame, fn *ssa.Function, a []Value) Value {
		return ex.newError(sprintf(ex, c, fn, a))
	}
	nop := func(ex *Exec, c *frame, fn *ssa.Function, a []Value) Value { return zeroResults(fn) }
	for _, n := range []string{"fmt.Printf", "fmt.Println", "fmt.Print", "log.Printf", "log.Println", "log.Print",
		"(*log.Logger).Printf", "(*log.Logger).Println", "fmt.Fprintln", "fmt.Fprint"} {
		intercepts[n] = nop
	}
	intercepts["fmt.Fprintf"] = hFprintf
	intercepts["log.Fatal"] = func(ex *Exec, c *frame, fn *ssa.Function, a []Value) Value {
		panic(goPanic{val: Iface{T: types.Typ[types.String], V: "log.Fatal"}, msg: "log.Fatal (process exit)"})
	}
	intercepts["log.Fatalf"] = intercepts["log.Fatal"]
	intercepts["os.Exit"] = intercepts["log.Fatal"]
}

func prefixIntercept(name string) handler {
	if h, ok := stdModels[name]; ok {
		return h
	}
	return nil
}

// stdModels is filled by model files (json, context, sync, time, goja, bolt).
var stdModels = map[string]handler{}

func mustStr(v Value) string {
	s, ok := v.(string)
	if !ok {
		panic(engineErr("intrinsic expects a concrete string, got %T", v))
	}
	return s
}

func showBound(v Value) string {
	if iv, ok := v.(Iface); ok {
		return showValue(iv.V)
	}
	return showValue(v)
}

func (e *Engine) wantReachCex(label string) bool {
	e.mu.Lock()
	defer e.mu.Unlock()
	return e.res.Stats.ReachCex[label] == nil
}

// newError builds an error value carrying msg (via the real errors.New).
func (ex *Exec) newError(msg Value) Value {
	p := ex.prog.ImportedPackage("errors")
	if p == nil {
		panic(engineErr("package errors not loaded"))
	}
	return ex.callFunction(p.Func("New"), []Value{msg}, nil)
}

// ---- Opts decoding ----

func (ex *Exec) decodeOpts(name string, v Value, fn *ssa.Function, idx int) *JSONOpts {
	st, ok := v.(*Struct)
	if !ok {
		panic(engineErr("Opts argument is %T", v))
	}
	tt := fn.Signature.Params().At(idx).Type().Underlying().(*types.Struct)
	o := &JSONOpts{Name: name}
	for i := 0; i < tt.NumFields(); i++ {
		f := st.F[i].V
		switch tt.Field(i).Name() {
		case "Depth":
			o.Depth = int(f.(int64))
		case "Width":
			o.Width = int(f.(int64))
		case "Nodes":
			o.Nodes = int(f.(int64))
		case "Tags":
			o.Tags = int(f.(int64))
		case "Leaf":
			o.Leaf = int(f.(int64))
		case "NoVar":
			o.NoVar = f.(bool)
		case "Finite":
			o.Finite = f.(bool)
		case "NoVarKeys":
			o.NoVarKeys = f.(bool)
		case "Pool":
			sl := f.(Slice)
			for j := 0; j < sl.Len; j++ {
				o.StrPool = append(o.StrPool, mustStr(sl.Arr.E[sl.Off+j].V))
			}
		case "ValPool":
			sl := f.(Slice)
			for j := 0; j < sl.Len; j++ {
				o.ValPool = append(o.ValPool, mustStr(sl.Arr.E[sl.Off+j].V))
			}
		}
	}
	if o.Tags == 0 {
		o.Tags = TagsJSON
	}
	if o.Leaf == 0 {
		o.Leaf = o.Tags & (TagsScalars | TI64 | TInt | TAlien)
	}
	if o.Width == 0 {
		o.Width = 2
	}
	ex.bounds[name] = fmt.Sprintf("depth<=%d width<=%d nodes<=%d tags=%s leaf=%s novar=%v finite=%v keypool=%v valpool=%v strlen<=%d",
		o.Depth, o.Width, o.Nodes, tagSet(o.Tags), tagSet(o.Leaf), o.NoVar, o.Finite, o.StrPool, o.ValPool, ex.cfg.StrMax)
	return o
}

func tagSet(d int) string {
	var n []string
	for _, t := range tags(d) {
		n = append(n, tagName(t))
	}
	return "{" + strings.Join(n, ",") + "}"
}

func hAnyJSON(ex *Exec, c *frame, fn *ssa.Function, a []Value) Value {
	name := mustStr(a[0])
	o := ex.decodeOpts(name, a[1], fn, 1)
	l := ex.newLazy(name, o.Depth, o)
	o.used = 1
	ex.inputs = append(ex.inputs, &inputRec{Kind: "json", Name: name, Val: l})
	return l
}

// AnyMap returns a lazily sized map[string]interface{} (bindings, props).
func hAnyMap(ex *Exec, c *frame, fn *ssa.Function, a []Value) Value {
	name := mustStr(a[0])
	o := ex.decodeOpts(name, a[1], fn, 1)
	ex.nextID++
	m := &Map{ID: ex.nextID, T: tMapSI, Unsized: &lazyMapSpec{opts: o, depth: o.Depth - 1, name: name}}
	m.Origin = &Lazy{Name: name, Opts: o}
	ex.inputs = append(ex.inputs, &inputRec{Kind: "map", Name: name, Val: m})
	return m
}

func hAnyString(ex *Exec, c *frame, fn *ssa.Function, a []Value) Value {
	name := mustStr(a[0])
	s := ex.freshString(name)
	ex.inputs = append(ex.inputs, &inputRec{Kind: "string", Name: name, Val: s})
	return s
}

func hAnyInt(ex *Exec, c *frame, fn *ssa.Function, a []Value) Value {
	name := mustStr(a[0])
	lo, hi := a[1].(int64), a[2].(int64)
	t := ex.fresh(name, smt.BV64)
	ex.addPC(smt.BVCmp("bvsge", t, smt.BVConst(uint64(lo), 64)))
	ex.addPC(smt.BVCmp("bvsle", t, smt.BVConst(uint64(hi), 64)))
	ex.bounds[name] = fmt.Sprintf("int in [%d,%d]", lo, hi)
	ex.inputs = append(ex.inputs, &inputRec{Kind: "int", Name: name, Val: t})
	return t
}

func hAnyBool(ex *Exec, c *frame, fn *ssa.Function, a []Value) Value {
	name := mustStr(a[0])
	t := ex.fresh(name, smt.Bool)
	ex.inputs = append(ex.inputs, &inputRec{Kind: "bool", Name: name, Val: t})
	return t
}

func hAnyFloat(ex *Exec, c *frame, fn *ssa.Function, a []Value) Value {
	name := mustStr(a[0])
	t := ex.fresh(name, smt.FP64)
	ex.inputs = append(ex.inputs, &inputRec{Kind: "float", Name: name, Val: t})
	return t
}

func hChoose(ex *Exec, c *frame, fn *ssa.Function, a []Value) Value {
	name := mustStr(a[0])
	n := int(a[1].(int64))
	i := ex.chooseN("choose:"+name, n)
	ex.inputs = append(ex.inputs, &inputRec{Kind: "choose", Name: name, Val: int64(i), N: n})
	return int64(i)
}

// ---- freeze / identity ----

func (ex *Exec) freeze(v Value, o *Owner, seen map[interface{}]bool) {
	switch x := v.(type) {
	case Iface:
		if x.T != nil {
			ex.freeze(x.V, o, seen)
		}
	case *Lazy:
		if seen[x] {
			return
		}
		seen[x] = true
		if x.Opts != nil && x.Opts.Own == nil {
			x.Opts.Own = o
		}
		if x.Res != nil {
			ex.freeze(*x.Res, o, seen)
		}
	case *Map:
		if x == nil || seen[x] {
			return
		}
		seen[x] = true
		x.Own = o
		if x.Unsized != nil && x.Unsized.opts != nil && x.Unsized.opts.Own == nil {
			x.Unsized.opts.Own = o
		}
		for _, e := range x.Entries {
			ex.freeze(e.K, o, seen)
			ex.freeze(e.V, o, seen)
		}
	case Slice:
		if x.Arr == nil || seen[x.Arr] {
			return
		}
		seen[x.Arr] = true
		x.Arr.Own = o
		// whole backing array up to capacity (append in place is a write)
		for _, c := range x.Arr.E {
			c.Own = o
			ex.freeze(c.V, o, seen)
		}
	case *Cell:
		if x == nil || seen[x] {
			return
		}
		seen[x] = true
		x.Own = o
		ex.freeze(x.V, o, seen)
	case *Struct:
		if x == nil {
			return
		}
		for _, c := range x.F {
			if !seen[c] {
				seen[c] = true
				c.Own = o
				ex.freeze(c.V, o, seen)
			}
		}
	case *Array:
		if x == nil {
			return
		}
		for _, c := range x.E {
			if !seen[c] {
				seen[c] = true
				c.Own = o
				ex.freeze(c.V, o, seen)
			}
		}
	case *Closure:
		if x == nil || seen[x] {
			return
		}
		seen[x] = true
		for _, e := range x.Env {
			ex.freeze(e, o, seen)
		}
	}
}

func (ex *Exec) sameObject(a, b Value) Value {
	if la, ok := a.(*Lazy); ok {
		if lb, ok := b.(*Lazy); ok && la == lb {
			return true
		}
	}
	ua, ub := unwrapIface(a), unwrapIface(b)
	switch x := ua.(type) {
	case *Map:
		y, ok := ub.(*Map)
		return ok && x != nil && x == y
	case Slice:
		y, ok := ub.(Slice)
		return ok && x.Arr != nil && x.Arr == y.Arr
	case *Cell:
		y, ok := ub.(*Cell)
		return ok && x != nil && x == y
	}
	return false
}

func unwrapIface(v Value) Value {
	switch x := v.(type) {
	case Iface:
		return x.V
	case *Lazy:
		if x.Res != nil {
			return x.Res.V
		}
		return x
	}
	return v
}

// ---- JSONEqual: structural equality as one formula ----

func numericTag(t int) bool { return t == TF64 || t == TI64 || t == TInt }

func (ex *Exec) jsonEqual(a, b Value, fr *frame) Value {
	// a value that contains itself (a map bound inside itself) would recurse for ever
	ex.jeqDepth++
	defer func() { ex.jeqDepth-- }()
	if ex.jeqDepth > 100 {
		panic(engineErr("JSONEqual: value nested deeper than 100 levels (cyclic?)"))
	}
	if la, ok := a.(*Lazy); ok {
		if lb, ok := b.(*Lazy); ok && la == lb {
			return true
		}
	}
	// resolve the more-resolved side first so the other can be restricted instead of forced
	ra, rb := resolvedIface(a), resolvedIface(b)
	switch {
	case ra == nil && rb == nil:
		ia := ex.forceIface(a)
		ra = &ia
		fallthrough
	case rb == nil:
		lb := b.(*Lazy)
		want := jsonClass(*ra)
		if !ex.lazyRestrict(lb, want, "jeq:"+lb.Name) {
			return false
		}
		ib := ex.lazyForce(lb)
		rb = &ib
	case ra == nil:
		la := a.(*Lazy)
		want := jsonClass(*rb)
		if !ex.lazyRestrict(la, want, "jeq:"+la.Name) {
			return false
		}
		ia := ex.lazyForce(la)
		ra = &ia
	}
	return ex.jsonEqualResolved(*ra, *rb, fr)
}

// elemIface: the element of a Go-typed container ([]string, map[string]string, []int ...) as an interface
// value of the static element type; elements of []interface{} / map[string]interface{} are interfaces already.
func elemIface(v Value, container types.Type, isMap bool) Value {
	switch v.(type) {
	case Iface, *Lazy:
		return v
	}
	if container == nil {
		return v
	}
	var et types.Type
	switch u := container.Underlying().(type) {
	case *types.Map:
		et = u.Elem()
	case *types.Slice:
		et = u.Elem()
	case *types.Array:
		et = u.Elem()
	}
	if et == nil {
		return v
	}
	if _, isIface := et.Underlying().(*types.Interface); isIface {
		if v == nil {
			return Iface{}
		}
		return v
	}
	return Iface{T: et, V: v}
}

func resolvedIface(v Value) *Iface {
	switch x := v.(type) {
	case Iface:
		return &x
	case *Lazy:
		return x.Res
	}
	panic(engineErr("JSONEqual on %T", v))
}

// jsonClass: the set of tags JSON-equal values may have.
func jsonClass(iv Iface) int {
	if iv.T == nil {
		return TNil
	}
	t := tagOfType(iv.T)
	if numericTag(t) {
		return TF64 | TI64 | TInt
	}
	if t == 0 {
		// Bindings and other named map types count as maps
		if _, ok := iv.T.Underlying().(*types.Map); ok {
			return TMap
		}
		if _, ok := iv.T.Underlying().(*types.Slice); ok {
			return TArr
		}
	}
	return t
}

func (ex *Exec) asFloatTerm(iv Iface) Value {
	switch v := iv.V.(type) {
	case float64:
		return v
	case int64:
		return float64(v)
	case *smt.Term:
		if v.Sort.K == smt.KFP {
			return v
		}
		return smt.FPFromSBV(v)
	}
	panic(engineErr("asFloat on %T", iv.V))
}

func (ex *Exec) jsonEqualResolved(a, b Iface, fr *frame) Value {
	ca, cb := jsonClass(a), jsonClass(b)
	if ca != cb || ca == 0 {
		if ca == 0 || cb == 0 {
			// alien / unknown types: equal only if identical type and both zero-size
			return ca == cb && a.T != nil && b.T != nil && types.Identical(a.T, b.T)
		}
		return false
	}
	switch ca {
	case TNil:
		return true
	case TBool:
		return ex.equal(types.Typ[types.Bool], a.V, b.V, fr)
	case TStr:
		return ex.equal(types.Typ[types.String], a.V, b.V, fr)
	case TF64 | TI64 | TInt:
		fa, fb := ex.asFloatTerm(a), ex.asFloatTerm(b)
		if x, ok := fa.(float64); ok {
			if y, ok := fb.(float64); ok {
				return x == y || (x != x && y != y)
			}
		}
		ta, tb := toTermAuto(fa), toTermAuto(fb)
		return smt.Or(smt.FPCmp("fp.eq", ta, tb), smt.And(smt.FPIsNaN(ta), smt.FPIsNaN(tb)))
	case TMap:
		ma, _ := a.V.(*Map)
		mb, _ := b.V.(*Map)
		if ma == mb {
			return true
		}
		var ea, eb []*MapEntry
		if ma != nil {
			ex.forceMap(ma)
			ea = ma.live()
		}
		if mb != nil {
			ex.forceMap(mb)
			eb = mb.live()
		}
		if len(ea) != len(eb) {
			return false
		}
		var acc Value = true
		for _, x := range ea {
			var any Value = false
			for _, y := range eb {
				k := ex.equal(types.Typ[types.String], x.K, y.K, fr)
				if kb, ok := k.(bool); ok && !kb {
					continue
				}
				if kt, ok := k.(*smt.Term); ok && ex.pcSet[smt.Not(kt).S] {
					continue
				}
				v := ex.jsonEqual(elemIface(x.V, a.T, true), elemIface(y.V, b.T, true), fr)
				any = orV(any, andV(k, v))
				if kb, ok := k.(bool); ok && kb {
					break
				}
			}
			acc = andV(acc, any)
			if ab, ok := acc.(bool); ok && !ab {
				return false
			}
		}
		return acc
	case TArr:
		sa, sb := a.V.(Slice), b.V.(Slice)
		if sa.Len != sb.Len {
			return false
		}
		var acc Value = true
		for i := 0; i < sa.Len; i++ {
			acc = andV(acc, ex.jsonEqual(elemIface(sa.Arr.E[sa.Off+i].V, a.T, false), elemIface(sb.Arr.E[sb.Off+i].V, b.T, false), fr))
			if ab, ok := acc.(bool); ok && !ab {
				return false
			}
		}
		return acc
	}
	return false
}

// ---- fmt.Fprintf event recorder (C20) ----

func hFprintf(ex *Exec, c *frame, fn *ssa.Function, a []Value) Value {
	// a[0] writer (interface), a[1] format, a[2] args slice: recorded as a structured event
	ex.logs = append(ex.logs, Tuple{a[1], a[2]})
	return Tuple{int64(0), Iface{}}
}
