package exec

import (
	"go/types"
	"reflect"
	"strings"

	"sheensverif/gosym/smt"
)

// Typed (reflection-driven) JSON: the documented behaviour of encoding/json for structs is reproduced from
// the static types: exported fields only, `json:"name,omitempty"` / `json:"-"` tags, embedded structs
// flattened, pointers followed, maps with string keys, slices; decoding builds fresh values of the target
// type (numbers converted to the field's numeric type).

type fieldInfo struct {
	idx       int
	name      string
	omitEmpty bool
	embedded  bool
	typ       types.Type
}

func jsonFields(st *types.Struct) []fieldInfo {
	var fs []fieldInfo
	for i := 0; i < st.NumFields(); i++ {
		f := st.Field(i)
		tag := reflect.StructTag(st.Tag(i)).Get("json")
		if tag == "-" {
			continue
		}
		name, opts, _ := strings.Cut(tag, ",")
		if f.Embedded() && name == "" {
			// embedded struct (or pointer to one): flattened if exported or struct-typed
			t := f.Type()
			if p, ok := t.Underlying().(*types.Pointer); ok {
				t = p.Elem()
			}
			if _, isStruct := t.Underlying().(*types.Struct); isStruct {
				fs = append(fs, fieldInfo{idx: i, embedded: true, typ: f.Type()})
				continue
			}
		}
		if !f.Exported() {
			continue
		}
		if name == "" {
			name = f.Name()
		}
		fs = append(fs, fieldInfo{idx: i, name: name, omitEmpty: strings.Contains(opts, "omitempty"), typ: f.Type()})
	}
	return fs
}

func isEmptyJSON(v Value) bool {
	switch x := v.(type) {
	case nil:
		return true
	case bool:
		return !x
	case int64:
		return x == 0
	case float64:
		return x == 0
	case string:
		return x == ""
	case *Cell:
		return x == nil
	case *Map:
		return x == nil || (x.Unsized == nil && len(x.live()) == 0)
	case Slice:
		return x.Len == 0
	case Iface:
		return x.T == nil
	case *Closure:
		return x == nil
	case *Opaque:
		return x == nil
	}
	return false
}

// hasMethod: the named type (or its pointer) declares the method.
func hasMethod(t types.Type, name string) bool {
	for _, tt := range []types.Type{t, types.NewPointer(t)} {
		ms := types.NewMethodSet(tt)
		for i := 0; i < ms.Len(); i++ {
			if ms.At(i).Obj().Name() == name {
				return true
			}
		}
	}
	return false
}

func (ex *Exec) encodeStruct(t types.Type, s *Struct, fr *frame, depth int) (Value, string) {
	st := t.Underlying().(*types.Struct)
	ex.nextID++
	m := &Map{ID: ex.nextID, T: tMapSI}
	if failed := ex.encodeStructInto(m, st, s, fr, depth); failed != "" {
		return nil, failed
	}
	return Iface{T: tMapSI, V: m}, ""
}

func (ex *Exec) encodeStructInto(m *Map, st *types.Struct, s *Struct, fr *frame, depth int) string {
	for _, f := range jsonFields(st) {
		v := s.F[f.idx].V
		if f.embedded {
			t := f.typ
			if p, ok := t.Underlying().(*types.Pointer); ok {
				c, _ := v.(*Cell)
				if c == nil {
					continue
				}
				v = c.V
				t = p.Elem()
			}
			if failed := ex.encodeStructInto(m, t.Underlying().(*types.Struct), v.(*Struct), fr, depth+1); failed != "" {
				return failed
			}
			continue
		}
		if f.omitEmpty && isEmptyJSON(v) {
			continue
		}
		ev, failed := ex.jsonEncodeElem(f.typ, v, fr, depth+1)
		if failed != "" {
			return failed
		}
		m.Entries = append(m.Entries, &MapEntry{K: f.name, V: ev})
	}
	return ""
}

// decodeInto builds a fresh value of type t from the JSON-universe value v. ok=false: type mismatch (error).
func (ex *Exec) decodeInto(t types.Type, v Value, fr *frame, depth int) (Value, bool) {
	if depth > 60 {
		panic(engineErr("json model: decode nesting too deep"))
	}
	iv := ex.forceIface(v)
	// custom decoders
	if named, isNamed := t.(*types.Named); isNamed {
		switch named.String() {
		case "time.Time":
			if iv.T == nil {
				return ex.mkTime(int64(0)), true
			}
			s, isStr := iv.V.(string)
			if !isStr || !strings.HasPrefix(s, "T") {
				return nil, false
			}
			var ns int64
			for _, ch := range s[1:] {
				if ch < '0' || ch > '9' {
					return nil, false
				}
				ns = ns*10 + int64(ch-'0')
			}
			return ex.mkTime(ns), true
		}
	}
	switch u := t.Underlying().(type) {
	case *types.Interface:
		if iv.T == nil {
			return Iface{}, true
		}
		fresh, failed := ex.jsonEncodeValue(iv, fr, depth)
		if failed != "" {
			return nil, false
		}
		return fresh, true
	case *types.Pointer:
		if iv.T == nil {
			return (*Cell)(nil), true
		}
		inner, ok := ex.decodeInto(u.Elem(), iv, fr, depth+1)
		if !ok {
			return nil, false
		}
		return &Cell{V: inner}, true
	case *types.Basic:
		if iv.T == nil {
			return zero(t), true // null leaves the zero value
		}
		switch {
		case u.Info()&types.IsBoolean != 0:
			if _, is := iv.T.Underlying().(*types.Basic); is && isBoolean(iv.T) {
				return iv.V, true
			}
		case u.Info()&types.IsString != 0:
			if isString(iv.T) {
				return iv.V, true
			}
		case u.Info()&types.IsFloat != 0:
			if isFloat(iv.T) {
				return iv.V, true
			}
		case u.Info()&types.IsInteger != 0:
			if isFloat(iv.T) {
				switch f := iv.V.(type) {
				case float64:
					if f != float64(int64(f)) {
						return nil, false
					}
					return normInt(int64(f), t), true
				case *smt.Term:
					return smt.FPToSBV(f, intWidth(t)), true
				}
			}
		}
		return nil, false
	case *types.Struct:
		if iv.T == nil {
			return zero(t), true
		}
		m, isMap := iv.V.(*Map)
		if !isMap {
			return nil, false
		}
		ex.forceMap(m)
		s := zero(t).(*Struct)
		if !ex.decodeStructFrom(u, s, m, fr, depth) {
			return nil, false
		}
		return s, true
	case *types.Map:
		if iv.T == nil {
			return (*Map)(nil), true
		}
		m, isMap := iv.V.(*Map)
		if !isMap || !isString(u.Key()) {
			return nil, false
		}
		ex.forceMap(m)
		ex.nextID++
		nm := &Map{ID: ex.nextID, T: u}
		for _, e := range m.live() {
			ev, ok := ex.decodeInto(u.Elem(), e.V, fr, depth+1)
			if !ok {
				return nil, false
			}
			nm.Entries = append(nm.Entries, &MapEntry{K: e.K, V: ev})
		}
		return nm, true
	case *types.Slice:
		if iv.T == nil {
			return Slice{}, true
		}
		sl, isSl := iv.V.(Slice)
		if !isSl {
			return nil, false
		}
		arr := &Array{E: make([]*Cell, sl.Len)}
		for i := 0; i < sl.Len; i++ {
			ev, ok := ex.decodeInto(u.Elem(), sl.Arr.E[sl.Off+i].V, fr, depth+1)
			if !ok {
				return nil, false
			}
			arr.E[i] = &Cell{V: ev}
		}
		return Slice{Arr: arr, Len: sl.Len, Cap: sl.Len}, true
	}
	panic(engineErr("json model: cannot decode into %s", t))
}

func (ex *Exec) decodeStructFrom(st *types.Struct, s *Struct, m *Map, fr *frame, depth int) bool {
	for _, f := range jsonFields(st) {
		if f.embedded {
			t := f.typ
			if p, ok := t.Underlying().(*types.Pointer); ok {
				inner := zero(p.Elem()).(*Struct)
				if !ex.decodeStructFrom(p.Elem().Underlying().(*types.Struct), inner, m, fr, depth+1) {
					return false
				}
				s.F[f.idx].V = &Cell{V: inner}
			} else if !ex.decodeStructFrom(t.Underlying().(*types.Struct), s.F[f.idx].V.(*Struct), m, fr, depth+1) {
				return false
			}
			continue
		}
		var entry *MapEntry
		for _, e := range m.live() {
			if k, ok := e.K.(string); ok && (k == f.name || strings.EqualFold(k, f.name)) {
				entry = e
				if k == f.name {
					break
				}
			}
		}
		if entry == nil {
			continue
		}
		ev, ok := ex.decodeInto(f.typ, entry.V, fr, depth+1)
		if !ok {
			return false
		}
		s.F[f.idx].V = ev
	}
	return true
}
