package exec

import (
	"encoding/json"
	"go/types"
	"math"
	"strings"

	"golang.org/x/tools/go/ssa"
)

// The goja model.  The harnesses write ECMAScript actions as sequences of statements drawn from a small,
// fixed vocabulary (one statement per line, real JavaScript, so that a counterexample can be replayed
// through the real goja).  The model executes exactly those statements with goja's documented embedding
// semantics:
//
//   - goja.New() gives a runtime with its own global object and built-ins (here: a per-runtime set of
//     "polluted" global names); nothing is shared between runtimes; a compiled *Program is immutable;
//   - Go maps and slices put into the runtime (Runtime.Set) are wrapped BY REFERENCE: a script's
//     assignment to a property writes into the Go map; Export() of such a value returns the same map;
//   - JavaScript values handed to Go are exported: integral numbers -> int64, other numbers -> float64,
//     strings, booleans, null/undefined -> nil, object literals -> fresh map[string]interface{}, array
//     literals -> fresh []interface{};
//   - a Go function value in the environment is callable; a Go panic inside it propagates out of
//     RunProgram as a Go panic unless it is a goja exception value;
//   - `throw` / a TypeError makes RunProgram return (nil, *goja.Exception);
//   - Runtime.Interrupt(v) makes a running (or subsequently started) program return
//     (nil, *goja.InterruptedError); a script that loops forever ends only that way.
//
// Vocabulary (<k>,<j> are JSON string literals, <lit> a JSON literal):
//
//	_.out({"n":<int>});            _.out(_.bindings);            _.out(0/0);
//	_.bindings[<k>] = <lit>;       delete _.bindings[<k>];       _.bindings[<k>][<j>] = <lit>;
//	_.props[<k>] = <lit>;          _.props[<k>][<j>] = <lit>;    _.bindings = <lit>;
//	globalThis.polluted = 1;       Object.prototype.polluted = 1;   _.out = null;
//	if (typeof polluted !== "undefined" || ({}).polluted) _.out({"polluted":true});
//	throw "boom";                  while (true) {}
//	return _.bindings;  return <lit>;   (no return statement: undefined)

const gojaPkg = "github.com/dop251/goja"

func (ex *Exec) gojaErr(typeName string, msg string) Value {
	t := types.NewPointer(ex.namedType(gojaPkg, typeName))
	cell := &Cell{V: zero(ex.namedType(gojaPkg, typeName))}
	if ex.gojaMsgs == nil {
		ex.gojaMsgs = map[*Cell]string{}
	}
	ex.gojaMsgs[cell] = msg
	return Iface{T: t, V: cell}
}

// jsLiteral parses a JSON literal and converts it the way goja exports JavaScript values.
func (ex *Exec) jsLiteral(text string) (Value, bool) {
	var x interface{}
	dec := json.NewDecoder(strings.NewReader(text))
	dec.UseNumber()
	if err := dec.Decode(&x); err != nil {
		return nil, false
	}
	return ex.fromJS(x), true
}

func (ex *Exec) fromJS(x interface{}) Value {
	switch v := x.(type) {
	case nil:
		return Iface{}
	case bool:
		return Iface{T: types.Typ[types.Bool], V: v}
	case json.Number:
		f, _ := v.Float64()
		if f == math.Trunc(f) && math.Abs(f) < 1e15 && !strings.ContainsAny(string(v), ".eE") {
			return Iface{T: types.Typ[types.Int64], V: int64(f)}
		}
		return Iface{T: types.Typ[types.Float64], V: f}
	case string:
		return Iface{T: types.Typ[types.String], V: v}
	case map[string]interface{}:
		ex.nextID++
		m := &Map{ID: ex.nextID, T: tMapSI}
		// insertion order of an object literal = source order; json decoding loses it, use sorted keys
		ks := make([]string, 0, len(v))
		for k := range v {
			ks = append(ks, k)
		}
		sortStrings(ks)
		for _, k := range ks {
			m.Entries = append(m.Entries, &MapEntry{K: k, V: ex.fromJS(v[k])})
		}
		return Iface{T: tMapSI, V: m}
	case []interface{}:
		arr := &Array{E: make([]*Cell, len(v))}
		for i := range v {
			arr.E[i] = &Cell{V: ex.fromJS(v[i])}
		}
		return Iface{T: tSliceI, V: Slice{Arr: arr, Len: len(v), Cap: len(v)}}
	}
	panic(engineErr("fromJS %T", x))
}

func sortStrings(s []string) {
	for i := 1; i < len(s); i++ {
		for j := i; j > 0 && s[j] < s[j-1]; j-- {
			s[j], s[j-1] = s[j-1], s[j]
		}
	}
}

type jsThrow struct{ msg string }

func init() {
	m := func(name string, h handler) { stdModels[gojaPkg+"."+name] = h }
	rm := func(name string, h handler) { stdModels["(*"+gojaPkg+".Runtime)."+name] = h }

	m("Compile", func(ex *Exec, c *frame, fn *ssa.Function, a []Value) Value {
		src, ok := a[1].(string)
		if !ok {
			panic(engineErr("goja model: symbolic source text"))
		}
		if strings.Contains(src, "((( syntax error") {
			return Tuple{(*Opaque)(nil), ex.newError("SyntaxError: unexpected token")}
		}
		p := ex.newOpaque("gojaProgram")
		p.Fields["src"] = src
		return Tuple{p, Iface{}}
	})
	m("New", func(ex *Exec, c *frame, fn *ssa.Function, a []Value) Value {
		r := ex.newOpaque("gojaRuntime")
		r.Fields["polluted"] = false
		r.Fields["interrupted"] = false
		ex.note("goja-runtime-created")
		return r
	})
	rm("Set", func(ex *Exec, c *frame, fn *ssa.Function, a []Value) Value {
		r := a[0].(*Opaque)
		name := mustStr(a[1])
		r.Fields["global:"+name] = a[2]
		return Iface{}
	})
	rm("Interrupt", func(ex *Exec, c *frame, fn *ssa.Function, a []Value) Value {
		r := a[0].(*Opaque)
		r.Fields["interrupted"] = true
		r.Fields["interruptVal"] = a[1]
		return nil
	})
	rm("ClearInterrupt", func(ex *Exec, c *frame, fn *ssa.Function, a []Value) Value {
		a[0].(*Opaque).Fields["interrupted"] = false
		return nil
	})
	rm("ToValue", func(ex *Exec, c *frame, fn *ssa.Function, a []Value) Value {
		v := ex.newOpaque("gojaValue")
		v.Fields["export"] = a[1]
		return opaqueIface(v)
	})
	rm("RunProgram", hGojaRun)
	opaqueMethods["gojaValue.Export"] = func(ex *Exec, caller *frame, op *Opaque, args []Value) Value {
		return op.Fields["export"]
	}
	opaqueMethods["gojaValue.String"] = func(ex *Exec, caller *frame, op *Opaque, args []Value) Value {
		return "[value]"
	}
	stdModels["(*"+gojaPkg+".InterruptedError).Error"] = func(ex *Exec, c *frame, fn *ssa.Function, a []Value) Value {
		return "interrupted"
	}
	stdModels["(*"+gojaPkg+".Exception).Error"] = func(ex *Exec, c *frame, fn *ssa.Function, a []Value) Value {
		if cell, ok := a[0].(*Cell); ok {
			if msg, ok := ex.gojaMsgs[cell]; ok {
				return msg
			}
		}
		return "exception"
	}
}

// hGojaRun interprets the program's statements against the runtime.
func hGojaRun(ex *Exec, c *frame, fn *ssa.Function, a []Value) Value {
	r := a[0].(*Opaque)
	p, _ := a[1].(*Opaque)
	if p == nil {
		ex.goPanicf("invalid memory address or nil pointer dereference (nil *goja.Program)")
	}
	src := p.Fields["src"].(string)
	ex.note("goja-program-run")
	interrupted := func() Value {
		return Tuple{Iface{}, ex.gojaErr("InterruptedError", "interrupted")}
	}
	if r.Fields["interrupted"].(bool) {
		return interrupted()
	}
	envV, ok := r.Fields["global:_"]
	if !ok {
		return Tuple{Iface{}, ex.gojaErr("Exception", "ReferenceError: _ is not defined")}
	}
	env, _ := ex.forceIface(envV).V.(*Map)
	if env == nil {
		return Tuple{Iface{}, ex.gojaErr("Exception", "TypeError: cannot read property of undefined")}
	}
	get := func(m *Map, k string) (Value, bool) {
		if m == nil {
			return nil, false
		}
		if e := ex.findEntry(m, k, c, "js-get"); e != nil {
			return e.V, true
		}
		return nil, false
	}
	asMap := func(v Value) *Map {
		iv := ex.forceIface(v)
		if iv.T == nil {
			return nil
		}
		m, _ := iv.V.(*Map)
		return m
	}
	mkVal := func(v Value) Value {
		o := ex.newOpaque("gojaValue")
		o.Fields["export"] = v
		return Tuple{opaqueIface(o), Iface{}}
	}
	throw := func(msg string) Value {
		return Tuple{Iface{}, ex.gojaErr("Exception", msg)}
	}
	// strip the wrapper added by the interpreter: (function() {\n ... \n}());
	body := src
	if i := strings.Index(body, "(function() {\n"); i >= 0 {
		body = body[i+len("(function() {\n"):]
	}
	if i := strings.LastIndex(body, "\n}());"); i >= 0 {
		body = body[:i]
	}
	jsStr := func(lit string) (string, bool) {
		var s string
		if err := json.Unmarshal([]byte(lit), &s); err != nil {
			return "", false
		}
		return s, true
	}
	callOut := func(arg Value) (Value, bool) {
		f, have := get(env, "out")
		if !have {
			return throw("TypeError: _.out is not a function"), false
		}
		iv := ex.forceIface(f)
		if iv.T == nil {
			return throw("TypeError: _.out is not a function"), false
		}
		ex.call(iv.V, []Value{arg}, nil, c) // a Go panic inside propagates, as in goja
		return nil, true
	}
	for _, line := range strings.Split(body, "\n") {
		st := strings.TrimSpace(line)
		if st == "" {
			continue
		}
		if r.Fields["interrupted"].(bool) {
			return interrupted()
		}
		switch {
		case strings.HasPrefix(st, "_.out({") && strings.HasSuffix(st, "});"):
			v, ok := ex.jsLiteral(st[len("_.out(") : len(st)-2])
			if !ok {
				panic(engineErr("goja model: bad literal in %q", st))
			}
			if res, ok := callOut(v); !ok {
				return res
			}
		case st == "_.out(_.bindings);":
			b, have := get(env, "bindings")
			if !have {
				b = Iface{}
			}
			if res, ok := callOut(b); !ok {
				return res
			}
		case st == "_.out(0/0);":
			if res, ok := callOut(Iface{T: types.Typ[types.Float64], V: math.NaN()}); !ok {
				return res
			}
		case st == "_.out = null;":
			ex.mapUpdate(env, "out", Iface{}, c)
		case strings.HasPrefix(st, "_.bindings = ") && strings.HasSuffix(st, ";"):
			v, ok := ex.jsLiteral(st[len("_.bindings = ") : len(st)-1])
			if !ok {
				panic(engineErr("goja model: bad literal in %q", st))
			}
			ex.mapUpdate(env, "bindings", v, c)
		case strings.HasPrefix(st, "delete _.bindings[") && strings.HasSuffix(st, "];"):
			k, ok := jsStr(st[len("delete _.bindings[") : len(st)-2])
			if !ok {
				panic(engineErr("goja model: bad key in %q", st))
			}
			b, _ := get(env, "bindings")
			bm := asMapOrNil(ex, b)
			if bm == nil {
				return throw("TypeError: cannot convert undefined or null to object")
			}
			ex.mapDelete(bm, k, c)
		case (strings.HasPrefix(st, "_.bindings[") || strings.HasPrefix(st, "_.props[")) && strings.Contains(st, "] = ") && strings.HasSuffix(st, ";"):
			member := "bindings"
			rest := st[len("_.bindings["):]
			if strings.HasPrefix(st, "_.props[") {
				member = "props"
				rest = st[len("_.props["):]
			}
			eq := strings.Index(rest, "] = ")
			path := rest[:eq]
			lit := rest[eq+len("] = ") : len(rest)-1]
			v, ok := ex.jsLiteral(lit)
			if !ok {
				panic(engineErr("goja model: bad literal in %q", st))
			}
			keys := strings.Split(path, "][")
			tv, _ := get(env, member)
			var cur Value = tv
			if cur == nil || ex.forceIface(cur).T == nil {
				return throw("TypeError: cannot set property of undefined")
			}
			for i, kl := range keys {
				last := i == len(keys)-1
				civ := ex.forceIface(cur)
				if civ.T == nil {
					return throw("TypeError: cannot set property of null")
				}
				if k, isKey := jsStr(kl); isKey {
					tm, isMap := civ.V.(*Map)
					if !isMap {
						break // property assignment on a primitive is silently ignored
					}
					if last {
						ex.mapUpdate(tm, k, v, c)
						break
					}
					nv, have := get(tm, k)
					if !have {
						return throw("TypeError: cannot set property of undefined")
					}
					cur = nv
					continue
				}
				// numeric index into an array
				idx := 0
				for _, ch := range kl {
					if ch < '0' || ch > '9' {
						panic(engineErr("goja model: bad index in %q", st))
					}
					idx = idx*10 + int(ch-'0')
				}
				sl, isSl := civ.V.(Slice)
				if !isSl {
					break
				}
				if idx >= sl.Len {
					if last {
						break // growing a wrapped Go slice is not modelled (not in the vocabulary)
					}
					return throw("TypeError: cannot set property of undefined")
				}
				cell := sl.Arr.E[sl.Off+idx]
				if last {
					ex.store(cell, v, c)
					break
				}
				cur = cell.V
			}
			_ = asMap
		case st == "globalThis.polluted = 1;" || st == "Object.prototype.polluted = 1;":
			r.Fields["polluted"] = true
		case st == `if (typeof polluted !== "undefined" || ({}).polluted) _.out({"polluted":true});`:
			if r.Fields["polluted"].(bool) {
				v, _ := ex.jsLiteral(`{"polluted":true}`)
				if res, ok := callOut(v); !ok {
					return res
				}
			}
		case st == `throw "boom";`:
			return throw("boom")
		case st == "while (true) {}":
			// runs until interrupted: the only way out
			if !r.Fields["interrupted"].(bool) {
				ex.scheduler().block(func() bool { return r.Fields["interrupted"].(bool) }, "script-loop")
			}
			return interrupted()
		case st == "return _.bindings;":
			b, have := get(env, "bindings")
			if !have {
				b = Iface{}
			}
			return mkVal(b)
		case strings.HasPrefix(st, "return ") && strings.HasSuffix(st, ";"):
			v, ok := ex.jsLiteral(st[len("return ") : len(st)-1])
			if !ok {
				panic(engineErr("goja model: bad literal in %q", st))
			}
			return mkVal(v)
		default:
			panic(engineErr("goja model: statement outside the modelled vocabulary: %q", st))
		}
	}
	return mkVal(Iface{}) // undefined
}

func asMapOrNil(ex *Exec, v Value) *Map {
	if v == nil {
		return nil
	}
	iv := ex.forceIface(v)
	if iv.T == nil {
		return nil
	}
	m, _ := iv.V.(*Map)
	return m
}
