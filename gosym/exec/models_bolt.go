package exec

import (
	"sort"

	"golang.org/x/tools/go/ssa"
)

// The bbolt model: the documented transaction contract.
//
//	bolt.Open(path, ...)        : a database object per path (content survives Close/Open of the same path)
//	db.Update(fn)               : fn runs against a private copy of the buckets; its writes become visible
//	                              iff fn returns nil (commit), otherwise they are discarded (rollback);
//	                              a closed database refuses with an error and does not run fn
//	db.View(fn)                 : fn runs against the committed state, read-only
//	tx.CreateBucketIfNotExists, tx.Bucket, tx.DeleteBucket, b.Put, b.Get, b.Delete, b.Cursor().First/Next
//	                              (cursor order = byte order of the keys)
//
// Keys are concrete strings in the harnesses; values are opaque byte images (encoded JSON values).
// A scheduling point is placed before every transaction so that concurrent clients interleave there.

const boltPkg = "go.etcd.io/bbolt"

type boltBucket struct {
	kv map[string]Value
}

type boltDBModel struct {
	buckets map[string]*boltBucket
	open    bool
}

func (ex *Exec) boltFile(path string) *boltDBModel {
	if ex.boltFiles == nil {
		ex.boltFiles = map[string]*boltDBModel{}
	}
	f := ex.boltFiles[path]
	if f == nil {
		f = &boltDBModel{buckets: map[string]*boltBucket{}}
		ex.boltFiles[path] = f
	}
	return f
}

func bytesKey(ex *Exec, v Value) string {
	sl, ok := v.(Slice)
	if !ok {
		panic(engineErr("bolt model: key is %T", v))
	}
	if sl.Arr != nil && sl.Arr.StrSrc != nil && sl.Arr.E == nil {
		s, ok := sl.Arr.StrSrc.(string)
		if !ok {
			// a symbolic string that the path condition pins to one value is as good as that value
			if ss, isSym := sl.Arr.StrSrc.(*SymStr); isSym {
				if u, unique := ex.uniqueString(ss); unique {
					return u
				}
			}
			panic(engineErr("bolt model: symbolic key"))
		}
		return s
	}
	b := make([]byte, sl.Len)
	for i := 0; i < sl.Len; i++ {
		c, ok := sl.Arr.E[sl.Off+i].V.(int64)
		if !ok {
			panic(engineErr("bolt model: symbolic key byte"))
		}
		b[i] = byte(c)
	}
	return string(b)
}

func strBytes(s string) Value {
	arr := &Array{E: make([]*Cell, len(s))}
	for i := range arr.E {
		arr.E[i] = &Cell{V: int64(s[i])}
	}
	return Slice{Arr: arr, Len: len(s), Cap: len(s)}
}

func init() {
	m := func(name string, h handler) { stdModels[boltPkg+"."+name] = h }
	dbm := func(name string, h handler) { stdModels["(*"+boltPkg+".DB)."+name] = h }
	txm := func(name string, h handler) { stdModels["(*"+boltPkg+".Tx)."+name] = h }
	bm := func(name string, h handler) { stdModels["(*"+boltPkg+".Bucket)."+name] = h }
	cm := func(name string, h handler) { stdModels["(*"+boltPkg+".Cursor)."+name] = h }

	m("Open", func(ex *Exec, c *frame, fn *ssa.Function, a []Value) Value {
		path := mustStr(a[0])
		f := ex.boltFile(path)
		f.open = true
		db := ex.newOpaque("boltDB")
		db.Fields["path"] = path
		db.Fields["open"] = true
		return Tuple{db, Iface{}}
	})
	dbm("Close", func(ex *Exec, c *frame, fn *ssa.Function, a []Value) Value {
		db, _ := a[0].(*Opaque)
		if db == nil {
			ex.goPanicf("invalid memory address or nil pointer dereference (nil *bolt.DB)")
		}
		db.Fields["open"] = false
		return Iface{}
	})
	run := func(ex *Exec, c *frame, a []Value, writable bool) Value {
		db, _ := a[0].(*Opaque)
		if db == nil {
			ex.goPanicf("invalid memory address or nil pointer dereference (nil *bolt.DB)")
		}
		if ex.sched != nil {
			ex.sched.yield("bolt-tx")
		}
		if open, _ := db.Fields["open"].(bool); !open {
			return ex.newError("database not open")
		}
		f := ex.boltFile(db.Fields["path"].(string))
		tx := ex.newOpaque("boltTx")
		// private copy of the buckets
		work := map[string]*boltBucket{}
		for name, b := range f.buckets {
			nb := &boltBucket{kv: map[string]Value{}}
			for k, v := range b.kv {
				nb.kv[k] = v
			}
			work[name] = nb
		}
		ex.boltTx[tx] = &boltTxState{buckets: work, writable: writable}
		res := ex.call(a[1], []Value{tx}, nil, c)
		st := ex.boltTx[tx]
		delete(ex.boltTx, tx)
		if e := ex.forceIface(res); e.T != nil {
			return res // rollback: the working copy is dropped
		}
		if writable {
			f.buckets = st.buckets
			ex.note("bolt-commit")
		}
		return Iface{}
	}
	dbm("Update", func(ex *Exec, c *frame, fn *ssa.Function, a []Value) Value {
		if ex.boltTx == nil {
			ex.boltTx = map[*Opaque]*boltTxState{}
		}
		return run(ex, c, a, true)
	})
	dbm("View", func(ex *Exec, c *frame, fn *ssa.Function, a []Value) Value {
		if ex.boltTx == nil {
			ex.boltTx = map[*Opaque]*boltTxState{}
		}
		return run(ex, c, a, false)
	})
	bucketOf := func(ex *Exec, tx *Opaque, name string, create bool) *Opaque {
		st := ex.boltTx[tx]
		if st == nil {
			panic(engineErr("bolt model: transaction used outside Update/View"))
		}
		b, have := st.buckets[name]
		if !have {
			if !create {
				return nil
			}
			b = &boltBucket{kv: map[string]Value{}}
			st.buckets[name] = b
		}
		o := ex.newOpaque("boltBucket")
		ex.boltBuckets[o] = b
		o.Fields["writable"] = st.writable
		return o
	}
	txm("CreateBucketIfNotExists", func(ex *Exec, c *frame, fn *ssa.Function, a []Value) Value {
		if ex.boltBuckets == nil {
			ex.boltBuckets = map[*Opaque]*boltBucket{}
		}
		tx := a[0].(*Opaque)
		if !ex.boltTx[tx].writable {
			return Tuple{(*Opaque)(nil), ex.newError("tx not writable")}
		}
		return Tuple{bucketOf(ex, tx, bytesKey(ex, a[1]), true), Iface{}}
	})
	txm("Bucket", func(ex *Exec, c *frame, fn *ssa.Function, a []Value) Value {
		if ex.boltBuckets == nil {
			ex.boltBuckets = map[*Opaque]*boltBucket{}
		}
		return bucketOf(ex, a[0].(*Opaque), bytesKey(ex, a[1]), false)
	})
	txm("DeleteBucket", func(ex *Exec, c *frame, fn *ssa.Function, a []Value) Value {
		st := ex.boltTx[a[0].(*Opaque)]
		name := bytesKey(ex, a[1])
		if _, have := st.buckets[name]; !have {
			return ex.newError("bucket not found")
		}
		delete(st.buckets, name)
		return Iface{}
	})
	bm("Put", func(ex *Exec, c *frame, fn *ssa.Function, a []Value) Value {
		o, _ := a[0].(*Opaque)
		if o == nil {
			ex.goPanicf("invalid memory address or nil pointer dereference (nil *bolt.Bucket)")
		}
		if w, _ := o.Fields["writable"].(bool); !w {
			return ex.newError("tx not writable")
		}
		ex.boltBuckets[o].kv[bytesKey(ex, a[1])] = a[2]
		return Iface{}
	})
	bm("Delete", func(ex *Exec, c *frame, fn *ssa.Function, a []Value) Value {
		o, _ := a[0].(*Opaque)
		if o == nil {
			ex.goPanicf("invalid memory address or nil pointer dereference (nil *bolt.Bucket)")
		}
		if w, _ := o.Fields["writable"].(bool); !w {
			return ex.newError("tx not writable")
		}
		delete(ex.boltBuckets[o].kv, bytesKey(ex, a[1]))
		return Iface{}
	})
	bm("Get", func(ex *Exec, c *frame, fn *ssa.Function, a []Value) Value {
		o, _ := a[0].(*Opaque)
		if o == nil {
			ex.goPanicf("invalid memory address or nil pointer dereference (nil *bolt.Bucket)")
		}
		if v, have := ex.boltBuckets[o].kv[bytesKey(ex, a[1])]; have {
			return v
		}
		return Slice{}
	})
	bm("Cursor", func(ex *Exec, c *frame, fn *ssa.Function, a []Value) Value {
		o, _ := a[0].(*Opaque)
		if o == nil {
			ex.goPanicf("invalid memory address or nil pointer dereference (nil *bolt.Bucket)")
		}
		cur := ex.newOpaque("boltCursor")
		b := ex.boltBuckets[o]
		var keys []string
		for k := range b.kv {
			keys = append(keys, k)
		}
		sort.Strings(keys)
		cur.Fields["keys"] = keys
		cur.Fields["pos"] = 0
		cur.Fields["bucket"] = o
		return cur
	})
	step := func(ex *Exec, cur *Opaque, reset bool) Value {
		if reset {
			cur.Fields["pos"] = 0
		}
		keys := cur.Fields["keys"].([]string)
		pos := cur.Fields["pos"].(int)
		if pos >= len(keys) {
			return Tuple{Slice{}, Slice{}}
		}
		cur.Fields["pos"] = pos + 1
		b := ex.boltBuckets[cur.Fields["bucket"].(*Opaque)]
		return Tuple{strBytes(keys[pos]), b.kv[keys[pos]]}
	}
	cm("First", func(ex *Exec, c *frame, fn *ssa.Function, a []Value) Value { return step(ex, a[0].(*Opaque), true) })
	cm("Next", func(ex *Exec, c *frame, fn *ssa.Function, a []Value) Value { return step(ex, a[0].(*Opaque), false) })
}

type boltTxState struct {
	buckets  map[string]*boltBucket
	writable bool
}
