package exec

import (
	"golang.org/x/tools/go/ssa"
)

// Subprocess model: an ECHO process (what `cat` does): every complete line written to its stdin becomes
// available on its stdout, in order; stderr is empty; closing stdin ends stdout after the pending lines.
// bufio.Reader over such a pipe: ReadBytes('\n') blocks until a line is available or the stream ended.

type echoProc struct {
	pending []Value // parts of the line being written
	lines   []Value // complete lines (string values, without the newline)
	closed  bool
	limit   int // > 0: the process exits (closing its stdout) after echoing that many lines
	echoed  int
}

func (ex *Exec) procOf(o *Opaque) *echoProc {
	p, _ := o.Fields["proc"].(*echoProcBox)
	if p == nil {
		panic(engineErr("subprocess model: pipe without process"))
	}
	return p.p
}

type echoProcBox struct{ p *echoProc }

func init() {
	stdModels["os/exec.Command"] = func(ex *Exec, c *frame, fn *ssa.Function, a []Value) Value {
		cmd := ex.newOpaque("execCmd")
		p := &echoProc{}
		// convention of the harnesses: a last argument that is a number n > 0 makes the echo process exit
		// after n lines (natively: a shell loop that does just that)
		if sl, ok := a[1].(Slice); ok && sl.Len > 0 {
			if last, isStr := sl.Arr.E[sl.Off+sl.Len-1].V.(string); isStr {
				n := 0
				for _, ch := range last {
					if ch < '0' || ch > '9' {
						n = -1
						break
					}
					n = n*10 + int(ch-'0')
				}
				if n > 0 && len(last) > 0 {
					p.limit = n
				}
			}
		}
		cmd.Fields["proc"] = &echoProcBox{p: p}
		ex.note("subprocess-echo-model")
		return cmd
	}
	stdModels["os/exec.CommandContext"] = func(ex *Exec, c *frame, fn *ssa.Function, a []Value) Value {
		cmd := ex.newOpaque("execCmd")
		cmd.Fields["proc"] = &echoProcBox{p: &echoProc{}}
		return cmd
	}
	pipe := func(kind string) handler {
		return func(ex *Exec, c *frame, fn *ssa.Function, a []Value) Value {
			cmd := a[0].(*Opaque)
			p := ex.newOpaque(kind)
			p.Fields["proc"] = cmd.Fields["proc"]
			return Tuple{opaqueIface(p), Iface{}}
		}
	}
	stdModels["(*os/exec.Cmd).StdinPipe"] = pipe("pipeW")
	stdModels["(*os/exec.Cmd).StdoutPipe"] = pipe("pipeR")
	stdModels["(*os/exec.Cmd).StderrPipe"] = pipe("pipeErr")
	stdModels["(*os/exec.Cmd).Start"] = func(ex *Exec, c *frame, fn *ssa.Function, a []Value) Value { return Iface{} }
	stdModels["(*os/exec.Cmd).Wait"] = func(ex *Exec, c *frame, fn *ssa.Function, a []Value) Value { return Iface{} }
	stdModels["(*os/exec.Cmd).Run"] = func(ex *Exec, c *frame, fn *ssa.Function, a []Value) Value { return Iface{} }
	opaqueMethods["pipeW.Write"] = func(ex *Exec, caller *frame, op *Opaque, args []Value) Value {
		p := ex.procOf(op)
		if p.closed {
			return Tuple{int64(0), ex.newError("write on closed pipe")}
		}
		sl := args[0].(Slice)
		var s Value
		if sl.Arr != nil && sl.Arr.StrSrc != nil && sl.Arr.E == nil {
			s = sl.Arr.StrSrc
		} else {
			b := make([]byte, sl.Len)
			for i := 0; i < sl.Len; i++ {
				ch, ok := sl.Arr.E[sl.Off+i].V.(int64)
				if !ok {
					panic(engineErr("subprocess model: symbolic byte written"))
				}
				b[i] = byte(ch)
			}
			s = string(b)
		}
		if cs, ok := s.(string); ok && cs == "\n" {
			var line Value = ""
			for _, part := range p.pending {
				line = strConcat(line, part)
			}
			p.pending = nil
			p.lines = append(p.lines, line)
			p.echoed++
			if p.limit > 0 && p.echoed >= p.limit {
				p.closed = true // the process has echoed its share and exits
			}
			return Tuple{int64(1), Iface{}}
		}
		p.pending = append(p.pending, s)
		return Tuple{int64(1), Iface{}}
	}
	opaqueMethods["pipeW.Close"] = func(ex *Exec, caller *frame, op *Opaque, args []Value) Value {
		ex.procOf(op).closed = true
		return Iface{}
	}
	opaqueMethods["pipeR.Close"] = func(ex *Exec, caller *frame, op *Opaque, args []Value) Value { return Iface{} }
	opaqueMethods["pipeErr.Close"] = func(ex *Exec, caller *frame, op *Opaque, args []Value) Value { return Iface{} }
	stdModels["bufio.NewReader"] = func(ex *Exec, c *frame, fn *ssa.Function, a []Value) Value {
		r := ex.newOpaque("bufReader")
		src := ex.forceIface(a[0])
		r.Fields["src"] = src.V
		return r
	}
	stdModels["(*bufio.Reader).ReadBytes"] = func(ex *Exec, c *frame, fn *ssa.Function, a []Value) Value {
		r := a[0].(*Opaque)
		src, _ := r.Fields["src"].(*Opaque)
		eof := func() Value {
			io := ex.prog.ImportedPackage("io")
			ex.ensureInit(io)
			return Tuple{Slice{}, ex.global(io.Var("EOF")).V}
		}
		if src == nil || src.Kind == "pipeErr" {
			// stderr of the echo process: nothing, ever; it ends when the process does
			p := ex.procOf(src)
			if !p.closed {
				ex.scheduler().block(func() bool { return p.closed }, "read-stderr")
			}
			return eof()
		}
		p := ex.procOf(src)
		if len(p.lines) == 0 && !p.closed {
			ex.scheduler().block(func() bool { return len(p.lines) > 0 || p.closed }, "read-stdout")
		}
		if len(p.lines) == 0 {
			ex.note("readbytes-eof")
			return eof()
		}
		ex.note("readbytes-line")
		line := p.lines[0]
		p.lines = p.lines[1:]
		return Tuple{Slice{Arr: &Array{StrSrc: strConcat(line, "\n")}, Len: -1, Cap: -1}, Iface{}}
	}

	// bufio.Scanner over the same pipes (default split function: lines): Scan blocks until a line is
	// available or the stream ended; Bytes/Text give the line without its newline; at the end of the stream
	// Scan reports false and Err reports nil (the documented contract: io.EOF is not an error for a Scanner).
	stdModels["bufio.NewScanner"] = func(ex *Exec, c *frame, fn *ssa.Function, a []Value) Value {
		r := ex.newOpaque("bufScanner")
		src := ex.forceIface(a[0])
		r.Fields["src"] = src.V
		r.Fields["tok"] = ""
		return r
	}
	stdModels["(*bufio.Scanner).Buffer"] = func(ex *Exec, c *frame, fn *ssa.Function, a []Value) Value { return nil }
	stdModels["(*bufio.Scanner).Scan"] = func(ex *Exec, c *frame, fn *ssa.Function, a []Value) Value {
		r := a[0].(*Opaque)
		src, _ := r.Fields["src"].(*Opaque)
		p := ex.procOf(src)
		if src.Kind == "pipeErr" {
			if !p.closed {
				ex.scheduler().block(func() bool { return p.closed }, "scan-stderr")
			}
			return false
		}
		if len(p.lines) == 0 && !p.closed {
			ex.scheduler().block(func() bool { return len(p.lines) > 0 || p.closed }, "scan-stdout")
		}
		if len(p.lines) == 0 {
			ex.note("scan-eof")
			return false
		}
		ex.note("scan-line")
		r.Fields["tok"] = p.lines[0]
		p.lines = p.lines[1:]
		return true
	}
	stdModels["(*bufio.Scanner).Bytes"] = func(ex *Exec, c *frame, fn *ssa.Function, a []Value) Value {
		return Slice{Arr: &Array{StrSrc: a[0].(*Opaque).Fields["tok"]}, Len: -1, Cap: -1}
	}
	stdModels["(*bufio.Scanner).Text"] = func(ex *Exec, c *frame, fn *ssa.Function, a []Value) Value {
		return a[0].(*Opaque).Fields["tok"]
	}
	stdModels["(*bufio.Scanner).Err"] = func(ex *Exec, c *frame, fn *ssa.Function, a []Value) Value { return Iface{} }
}
