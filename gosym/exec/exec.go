package exec

import (
	"fmt"
	"go/constant"
	"go/token"
	"go/types"
	"os"
	"runtime"
	"sort"
	"strings"
	"sync"
	"time"

	"golang.org/x/tools/go/ssa"

	"sheensverif/gosym/smt"
)

// ---- control-flow signals (Go panics used inside the interpreter) ----

// engineError: the engine cannot continue (unsupported construct, solver unknown, budget). => INCONCLUSIVE
type engineError struct{ msg string }

func (e engineError) Error() string { return e.msg }

func engineErr(f string, a ...interface{}) engineError {
	return engineError{fmt.Sprintf(f, a...)}
}

// pathEnd: the current path stops (pruned by an assumption, or finished early after a violation).
type pathEnd struct{ reason string }

// goPanic: a panic of the interpreted program.
type goPanic struct {
	val Value // interface value
	msg string
}

// ---- tasks and decisions ----

type alt struct {
	cond  *smt.Term // nil = unconditional
	label string
}

// task: one path to explore, identified by its decision prefix; unchecked records that the path
// condition at the end of the prefix has not been confirmed satisfiable by a query.
type task struct {
	prefix    []int
	unchecked bool
}

type decision struct {
	idx   int
	n     int
	label string
}

// Config parameterises a run.
type Config struct {
	Prog          *ssa.Program
	Entry         *ssa.Function
	Tier          int
	SolverBin     string
	TimeoutMs     int
	Workers       int
	MaxSteps      int64 // per path
	MaxDepth      int   // call depth
	MaxPaths      int64
	Known         map[string]bool // known-finding ids whose exclusion is active
	StrMax        int
	ModulePath    string // e.g. github.com/Comcast/sheens
	Deadline      time.Time
	MaxViolations int
	Verbose       bool
	SolverLog     string
	// OrderInsensitive: functions whose map ranges are explored in insertion order only (see orderLemma)
	OrderInsensitive map[string]bool
}

// Violation describes a failed obligation with its concretised counterexample.
type Violation struct {
	Label  string
	Kind   string // assert | panic | write | deadlock | race
	Detail string
	Cex    *Cex
	Pos    string
}

// Stats aggregates over all paths.
type Stats struct {
	Paths, Pruned, Infeasible               int64
	Decisions                               int64
	Sat, Unsat, Unknown                     int64
	SolverTime                              time.Duration
	Steps                                   int64
	Asserts, AssertsProved, AssertsConcrete int64
	Funcs                                   map[string]int64
	Reach                                   map[string]int64
	ReachCex                                map[string]*Cex
	Bounds                                  map[string]string
	Models                                  map[string]bool
	Notes                                   map[string]int64
	Samples                                 []*Cex
	MaxTrail                                int
	Labels                                  map[string]int64
}

type Result struct {
	Stats      Stats
	Violations []*Violation
	EngineErr  string
	Wall       time.Duration
}

// Engine explores all paths of Entry.
type Engine struct {
	cfg      Config
	mu       sync.Mutex
	queue    []task
	busy     int
	cond     *sync.Cond
	res      Result
	stop     bool
	seenViol map[string]bool
	sizes    types.Sizes
}

func Run(cfg Config) *Result {
	if cfg.Workers <= 0 {
		cfg.Workers = 8
	}
	if cfg.MaxSteps == 0 {
		cfg.MaxSteps = 2_000_000
	}
	if cfg.MaxDepth == 0 {
		cfg.MaxDepth = 200
	}
	if cfg.StrMax == 0 {
		cfg.StrMax = 8
	}
	if cfg.TimeoutMs == 0 {
		cfg.TimeoutMs = 30000
	}
	if cfg.MaxViolations == 0 {
		cfg.MaxViolations = 3
	}
	e := &Engine{cfg: cfg, seenViol: map[string]bool{}}
	e.cond = sync.NewCond(&e.mu)
	e.res.Stats.Funcs = map[string]int64{}
	e.res.Stats.Reach = map[string]int64{}
	e.res.Stats.ReachCex = map[string]*Cex{}
	e.res.Stats.Bounds = map[string]string{}
	e.res.Stats.Models = map[string]bool{}
	e.res.Stats.Notes = map[string]int64{}
	e.queue = []task{{}}
	for _, l := range expectedReach(cfg.Prog, cfg.Entry) {
		e.res.Stats.Reach[l] = 0
	}
	t0 := time.Now()
	var wg sync.WaitGroup
	for w := 0; w < cfg.Workers; w++ {
		wg.Add(1)
		go func(w int) {
			defer wg.Done()
			e.worker(w)
		}(w)
	}
	wg.Wait()
	e.res.Wall = time.Since(t0)
	return &e.res
}

func (e *Engine) worker(id int) {
	solver, err := smt.NewSolver(e.cfg.SolverBin, e.cfg.TimeoutMs)
	if err != nil {
		e.fail("cannot start solver: " + err.Error())
		return
	}
	defer solver.Close()
	if e.cfg.SolverLog != "" && id == 0 {
		if f, err := os.Create(e.cfg.SolverLog); err == nil {
			solver.Log = f
			defer f.Close()
		}
	}
	var prev []int
	levels := 0
	for {
		e.mu.Lock()
		for len(e.queue) == 0 && e.busy > 0 && !e.stop {
			e.cond.Wait()
		}
		if e.stop || (len(e.queue) == 0 && e.busy == 0) {
			e.mu.Unlock()
			e.cond.Broadcast()
			return
		}
		// LIFO: depth-first flavour keeps the queue small
		tk := e.queue[len(e.queue)-1]
		e.queue = e.queue[:len(e.queue)-1]
		e.busy++
		e.mu.Unlock()

		ex := newExec(e, solver, tk.prefix)
		ex.prefixUnchecked = tk.unchecked
		// incremental solver reuse: keep the assertion levels shared with the previous path of this worker
		n := len(prev)
		if os.Getenv("GOSYM_NOREUSE") != "" {
			n = 0
		}
		if n == 0 {
			solver.Reset()
			levels = 0
			ex.shared = -1
		} else {
			L := 0
			for L < len(tk.prefix) && L < n && tk.prefix[L] == prev[L] {
				L++
			}
			if L > n-1 {
				L = n - 1
			}
			for levels > L {
				solver.Pop()
				levels--
			}
			ex.shared = L
			ex.mute = true
		}
		ex.runPath()
		prev = prev[:0]
		for _, d := range ex.trail {
			prev = append(prev, d.idx)
		}
		levels = len(ex.trail)
		if ex.outcome == "engine-error" || ex.solverDirty {
			prev = nil
		}

		e.mu.Lock()
		e.busy--
		e.merge(ex)
		if e.cfg.MaxPaths > 0 && e.res.Stats.Paths >= e.cfg.MaxPaths && e.res.EngineErr == "" {
			e.res.EngineErr = fmt.Sprintf("path budget %d exhausted", e.cfg.MaxPaths)
			e.stop = true
		}
		if !e.cfg.Deadline.IsZero() && time.Now().After(e.cfg.Deadline) && e.res.EngineErr == "" {
			e.res.EngineErr = "time budget exhausted"
			e.stop = true
		}
		e.mu.Unlock()
		e.cond.Broadcast()
	}
}

func (e *Engine) fail(msg string) {
	e.mu.Lock()
	if e.res.EngineErr == "" {
		e.res.EngineErr = msg
	}
	e.stop = true
	e.mu.Unlock()
	e.cond.Broadcast()
}

func (e *Engine) enqueue(prefix []int, unchecked bool) {
	cp := append([]int(nil), prefix...)
	e.mu.Lock()
	e.queue = append(e.queue, task{cp, unchecked})
	e.mu.Unlock()
	e.cond.Signal()
}

func (e *Engine) merge(ex *Exec) {
	st := &e.res.Stats
	st.Paths++
	switch ex.outcome {
	case "pruned":
		st.Pruned++
	case "infeasible":
		st.Infeasible++
	}
	st.Decisions += int64(len(ex.trail))
	// new decisions of this path (beyond the replayed prefix) by label
	for i := len(ex.prefix); i < len(ex.trail); i++ {
		if st.Labels == nil {
			st.Labels = map[string]int64{}
		}
		st.Labels[ex.trail[i].label]++
	}
	if len(ex.trail) > st.MaxTrail {
		st.MaxTrail = len(ex.trail)
	}
	st.Steps += ex.steps
	st.Sat += int64(ex.solver.NSat)
	st.Unsat += int64(ex.solver.NUnsat)
	st.Unknown += int64(ex.solver.NUnknown)
	st.SolverTime += ex.solver.Time
	ex.solver.NSat, ex.solver.NUnsat, ex.solver.NUnknown, ex.solver.Time = 0, 0, 0, 0
	st.Asserts += ex.nAsserts
	st.AssertsProved += ex.nProved
	st.AssertsConcrete += ex.nConcrete
	for f, n := range ex.funcs {
		st.Funcs[f.String()] += n
	}
	for k, v := range ex.bounds {
		st.Bounds[k] = v
	}
	for k := range ex.models {
		st.Models[k] = true
	}
	for k, v := range ex.notes {
		st.Notes[k] += v
	}
	for l, c := range ex.reach {
		st.Reach[l]++
		if st.ReachCex[l] == nil && c != nil {
			st.ReachCex[l] = c
		}
	}
	if ex.sample != nil && len(st.Samples) < 4 {
		st.Samples = append(st.Samples, ex.sample)
	}
	if ex.engineErr != "" && e.res.EngineErr == "" {
		e.res.EngineErr = ex.engineErr
		e.stop = true
	}
	for _, v := range ex.violations {
		key := v.Kind + ":" + v.Label
		if e.seenViol[key] {
			continue
		}
		e.seenViol[key] = true
		e.res.Violations = append(e.res.Violations, v)
		if len(e.res.Violations) >= e.cfg.MaxViolations {
			e.stop = true
		}
	}
}

// ---- per-path execution state ----

type symInfo struct {
	name string
	sort smt.Sort
}

type Exec struct {
	eng    *Engine
	cfg    *Config
	prog   *ssa.Program
	solver *smt.Solver

	prefix          []int
	trail           []decision
	pcSet           map[string]bool
	pc              []*smt.Term
	symSet          map[string]bool // declared symbols
	symUsed         map[string]bool // symbols mentioned by a branch/assume/assert condition in the PC
	unchecked       bool            // the PC contains conjuncts added without a feasibility check
	prefixUnchecked bool
	// solver reuse: decisions [0,shared) and everything sent before decision `shared` are already on the
	// solver's assertion stack; mute suppresses re-sending them during replay. shared<0: fresh solver.
	shared      int
	mute        bool
	solverDirty bool

	syms    []symInfo
	nextSym int
	nextID  int

	globals map[*ssa.Global]*Cell
	inited  map[*ssa.Package]bool

	steps      int64
	depth      int
	outcome    string
	engineErr  string
	violations []*Violation
	reach      map[string]*Cex
	funcs      map[*ssa.Function]int64
	bounds     map[string]string
	models     map[string]bool
	notes      map[string]int64
	sample     *Cex

	nAsserts, nProved, nConcrete int64

	// inputs recorded in call order for counterexample output
	inputs []*inputRec
	// write monitor
	writes            []writeRec
	mapOrderInsertion bool
	noOrderLemma      bool
	orderOnly         map[string]bool // when set: map orders are explored only inside these functions
	logs              []Value

	sched          *scheduler
	preemptAtGo    bool
	jeqDepth       int
	preemptAtLocks bool
	races          []RaceReport
	harnessFn      map[*ssa.Function]bool
	spawnVC        vclock
	parseMemo      map[string]*parseRes
	atomicOps      int
	initRunning    *ssa.Function
	pools          map[*Cell][]Value
	locks          map[*Cell]*lockState
	timerObjs      map[*Cell]*timerObj
	gojaMsgs       map[*Cell]string
	boltFiles      map[string]*boltDBModel
	boltTx         map[*Opaque]*boltTxState
	boltBuckets    map[*Opaque]*boltBucket
}

type inputRec struct {
	Kind string // json | bindings | string | int | bool | float | choose
	Name string
	Val  Value
	N    int
}

type writeRec struct {
	tag string
	pos string
}

func newExec(e *Engine, solver *smt.Solver, prefix []int) *Exec {
	return &Exec{
		eng: e, cfg: &e.cfg, prog: e.cfg.Prog, solver: solver, prefix: prefix,
		pcSet: map[string]bool{}, symSet: map[string]bool{}, symUsed: map[string]bool{}, globals: map[*ssa.Global]*Cell{}, inited: map[*ssa.Package]bool{},
		reach: map[string]*Cex{}, funcs: map[*ssa.Function]int64{}, bounds: map[string]string{},
		models: map[string]bool{}, notes: map[string]int64{},
	}
}

// level opens a new assertion level for the decision about to be recorded.
func (ex *Exec) level() {
	pos := len(ex.trail)
	if ex.shared >= 0 && pos < ex.shared {
		return
	}
	ex.mute = false
	ex.solver.Push()
}

func (ex *Exec) runPath() {
	ex.outcome = "done"
	defer func() {
		if r := recover(); r != nil {
			switch x := r.(type) {
			case pathEnd:
				ex.outcome = x.reason
			case engineError:
				ex.engineErr = x.msg + ex.where()
				ex.outcome = "engine-error"
			case goPanic:
				// an interpreted panic escaped the harness entry: the harness did not guard it
				if ex.unchecked && ex.pcInfeasible() {
					ex.outcome = "infeasible"
					break
				}
				ex.engineErr = "uncaught panic in harness: " + x.msg + ex.where()
				ex.outcome = "engine-error"
			default:
				buf := make([]byte, 4096)
				buf = buf[:runtime.Stack(buf, false)]
				ex.engineErr = fmt.Sprintf("internal error: %v%s\n%s", r, ex.where(), buf)
				ex.outcome = "engine-error"
			}
		}
		if ex.sched != nil {
			ex.sched.killAll()
		}
	}()
	ex.callFunction(ex.cfg.Entry, nil, nil)
	if ex.sched != nil {
		ex.sched.finishMain()
	}
}

func (ex *Exec) where() string {
	return " [trail " + ex.trailString() + "]"
}

func (ex *Exec) trailString() string {
	var parts []string
	for _, d := range ex.trail {
		parts = append(parts, fmt.Sprintf("%s=%d/%d", d.label, d.idx, d.n))
	}
	s := strings.Join(parts, " ")
	if len(s) > 600 {
		s = "..." + s[len(s)-600:]
	}
	return s
}

func (ex *Exec) note(k string) { ex.notes[k]++ }

// ---- symbols and path condition ----

func (ex *Exec) fresh(prefix string, sort smt.Sort) *smt.Term {
	name := fmt.Sprintf("%s_%d", sanitize(prefix), ex.nextSym)
	ex.nextSym++
	ex.syms = append(ex.syms, symInfo{name, sort})
	ex.symSet[name] = true
	if !ex.mute {
		ex.solver.Declare(name, sort)
	}
	return smt.Var(name, sort)
}

func sanitize(s string) string {
	var b strings.Builder
	for _, c := range s {
		if (c >= 'a' && c <= 'z') || (c >= 'A' && c <= 'Z') || (c >= '0' && c <= '9') || c == '_' {
			b.WriteRune(c)
		} else {
			b.WriteByte('_')
		}
	}
	if b.Len() == 0 {
		return "v"
	}
	return b.String()
}

// addPC asserts t without a feasibility check and marks its symbols as constrained.
func (ex *Exec) addPC(t *smt.Term) {
	if t == nil || t.S == "true" {
		return
	}
	if ex.pcSet[t.S] {
		return
	}
	ex.markUsed(t)
	ex.pcSet[t.S] = true
	ex.learn(t)
	ex.pc = append(ex.pc, t)
	if !ex.mute {
		ex.solver.Assert(t)
	}
}

// learn records the conjuncts of an asserted conjunction as known facts (syntactic cache only).
func (ex *Exec) learn(t *smt.Term) {
	for _, c := range t.Conj {
		ex.pcSet[c.S] = true
		ex.learn(c)
	}
}

// addSide asserts a domain side condition of fresh symbols (does not count as "constrained").
func (ex *Exec) addSide(t *smt.Term) {
	if t == nil || t.S == "true" || ex.pcSet[t.S] {
		return
	}
	ex.pcSet[t.S] = true
	ex.pc = append(ex.pc, t)
	if !ex.mute {
		ex.solver.Assert(t)
	}
}

func (ex *Exec) symbolsOf(t *smt.Term) []string {
	var res []string
	s := t.S
	i := 0
	for i < len(s) {
		c := s[i]
		if (c >= 'a' && c <= 'z') || (c >= 'A' && c <= 'Z') || c == '_' {
			j := i
			for j < len(s) && s[j] != ' ' && s[j] != ')' && s[j] != '(' {
				j++
			}
			if ex.symSet[s[i:j]] {
				res = append(res, s[i:j])
			}
			i = j
		} else {
			i++
		}
	}
	return res
}

func (ex *Exec) markUsed(t *smt.Term) {
	for _, n := range ex.symbolsOf(t) {
		ex.symUsed[n] = true
	}
}

// hasFreshSymbol: t mentions a symbol no earlier condition has constrained; such a comparison is
// (almost always) satisfiable both ways, so the feasibility query is skipped.  Skipping is sound: an
// infeasible path can only yield unsat obligations, and witnesses/violations always re-check the PC.
func (ex *Exec) hasFreshSymbol(t *smt.Term) bool {
	for _, n := range ex.symbolsOf(t) {
		if !ex.symUsed[n] {
			return true
		}
	}
	return false
}

func (ex *Exec) check() smt.Result {
	r, err := ex.solver.Check()
	if err != nil {
		panic(engineErr("solver: %v", err))
	}
	if r == smt.Unknown {
		panic(engineErr("solver answered unknown"))
	}
	return r
}

func (ex *Exec) pcInfeasible() (res bool) {
	defer func() {
		if r := recover(); r != nil {
			res = false
		}
	}()
	return ex.check() == smt.Unsat
}

// feasible reports whether PC ∧ t is satisfiable.
func (ex *Exec) feasible(t *smt.Term) bool {
	if t == nil || t.S == "true" {
		return true
	}
	if t.S == "false" {
		return false
	}
	if ex.pcSet[t.S] {
		return true
	}
	if ex.pcSet[smt.Not(t).S] {
		return false
	}
	ex.solverDirty = true
	ex.solver.Push()
	ex.solver.Assert(t)
	r := ex.check()
	ex.solver.Pop()
	ex.solverDirty = false
	return r == smt.Sat
}

// choose picks one of the alternatives; new decisions enqueue the other feasible ones as tasks.
func (ex *Exec) choose(label string, alts []alt) int {
	pos := len(ex.trail)
	if pos < len(ex.prefix) {
		idx := ex.prefix[pos]
		if idx >= len(alts) {
			panic(engineErr("replay mismatch at decision %d (%s): idx %d of %d", pos, label, idx, len(alts)))
		}
		ex.level()
		ex.trail = append(ex.trail, decision{idx, len(alts), label})
		ex.addPC(alts[idx].cond)
		if len(ex.trail) == len(ex.prefix) {
			ex.unchecked = ex.prefixUnchecked
		}
		return idx
	}
	var feas []int
	for i, a := range alts {
		if ex.feasible(a.cond) {
			feas = append(feas, i)
		}
	}
	if len(feas) == 0 {
		panic(pathEnd{"infeasible"})
	}
	cur := make([]int, len(ex.trail), len(ex.trail)+1)
	for i, d := range ex.trail {
		cur[i] = d.idx
	}
	for _, i := range feas[1:] {
		// a conditional alternative was confirmed by a query; an unconditional one inherits the state
		ex.eng.enqueue(append(cur, i), alts[i].cond == nil && ex.unchecked)
	}
	idx := feas[0]
	ex.level()
	ex.trail = append(ex.trail, decision{idx, len(alts), label})
	if alts[idx].cond != nil {
		ex.unchecked = false
	}
	ex.addPC(alts[idx].cond)
	return idx
}

// choose2 is the two-way branch on condition c with cheaper feasibility handling.
func (ex *Exec) choose2(label string, c *smt.Term) bool {
	pos := len(ex.trail)
	nc := smt.Not(c)
	if pos < len(ex.prefix) {
		idx := ex.prefix[pos]
		ex.level()
		ex.trail = append(ex.trail, decision{idx, 2, label})
		if idx == 0 {
			ex.addPC(c)
		} else {
			ex.addPC(nc)
		}
		if len(ex.trail) == len(ex.prefix) {
			ex.unchecked = ex.prefixUnchecked
		}
		return idx == 0
	}
	var f0, f1 bool
	skipped := false
	if ex.hasFreshSymbol(c) {
		f0, f1 = true, true
		skipped = true
		ex.notes["feasibility-skipped-fresh-symbol"]++
	} else {
		f0 = ex.feasible(c)
		if !f0 && !ex.unchecked {
			f1 = true // the PC is known satisfiable, so the other side is
		} else {
			f1 = ex.feasible(nc)
		}
		if !f0 && !f1 {
			panic(pathEnd{"infeasible"})
		}
	}
	cur := make([]int, len(ex.trail), len(ex.trail)+1)
	for i, d := range ex.trail {
		cur[i] = d.idx
	}
	switch {
	case f0 && f1:
		ex.eng.enqueue(append(cur, 1), skipped)
		ex.level()
		ex.trail = append(ex.trail, decision{0, 2, label})
		ex.unchecked = skipped
		ex.addPC(c)
		return true
	case f0:
		ex.level()
		ex.trail = append(ex.trail, decision{0, 2, label})
		ex.unchecked = false
		ex.addPC(c)
		return true
	default:
		ex.level()
		ex.trail = append(ex.trail, decision{1, 2, label})
		// f1 was either confirmed by a query or inferred from a satisfiable PC
		ex.unchecked = false
		ex.addPC(nc)
		return false
	}
}

// chooseN is an unconditional n-way choice.
func (ex *Exec) chooseN(label string, n int) int {
	if n <= 1 {
		return 0
	}
	alts := make([]alt, n)
	return ex.choose(label, alts)
}

// branch decides a (possibly symbolic) boolean.
func (ex *Exec) branch(label string, c Value) bool {
	switch x := c.(type) {
	case bool:
		return x
	case *smt.Term:
		if x.S == "true" {
			return true
		}
		if x.S == "false" {
			return false
		}
		if ex.pcSet[x.S] {
			return true
		}
		if ex.pcSet[smt.Not(x).S] {
			return false
		}
		return ex.choose2(label, x)
	}
	panic(engineErr("branch on %T", c))
}

// assume restricts the path; an unsatisfiable assumption prunes it.
func (ex *Exec) assume(c Value) {
	switch x := c.(type) {
	case bool:
		if !x {
			panic(pathEnd{"pruned"})
		}
	case *smt.Term:
		if !ex.feasible(x) {
			panic(pathEnd{"pruned"})
		}
		ex.addPC(x)
	default:
		panic(engineErr("assume on %T", c))
	}
}

// model returns model values for all symbols (the current assertion stack must be satisfiable).
func (ex *Exec) model(extra *smt.Term) (map[string]string, bool) {
	ex.solverDirty = true
	ex.solver.Push()
	defer func() {
		ex.solver.Pop()
		ex.solverDirty = false
	}()
	if extra != nil {
		ex.solver.Assert(extra)
	}
	if ex.check() != smt.Sat {
		return nil, false
	}
	names := make([]string, len(ex.syms))
	for i, s := range ex.syms {
		names[i] = s.name
	}
	if len(names) == 0 {
		return map[string]string{}, true
	}
	m, err := ex.solver.GetValues(names)
	if err != nil {
		panic(engineErr("get-value: %v", err))
	}
	return m, true
}

func (ex *Exec) violation(kind, label, detail string, extra *smt.Term, pos string) {
	m, ok := ex.model(extra)
	if !ok {
		return
	}
	cex := ex.buildCex(m)
	cex.Label = label
	cex.Kind = kind
	ex.violations = append(ex.violations, &Violation{Label: label, Kind: kind, Detail: detail, Cex: cex, Pos: pos})
}

// assert checks an obligation on the current path.
func (ex *Exec) assertObl(label string, c Value, pos string) {
	ex.nAsserts++
	switch x := c.(type) {
	case bool:
		ex.nConcrete++
		if !x {
			ex.violation("assert", label, "assertion is false on this path", nil, pos)
			panic(pathEnd{"violation"})
		}
	case *smt.Term:
		neg := smt.Not(x)
		if ex.feasible(neg) {
			ex.violation("assert", label, "assertion can be false", neg, pos)
			panic(pathEnd{"violation"})
		}
		ex.nProved++
		ex.addPC(x)
	default:
		panic(engineErr("assert on %T", c))
	}
}

func (ex *Exec) posOf(p token.Pos) string {
	if !p.IsValid() {
		return ""
	}
	return ex.prog.Fset.Position(p).String()
}

func sortedKeys(m map[string]int64) []string {
	var ks []string
	for k := range m {
		ks = append(ks, k)
	}
	sort.Strings(ks)
	return ks
}

// expectedReach collects the constant labels of verif.Reach calls statically reachable from the
// harness entry through harness code (files named zz_verif_*), for the vacuity check.
func expectedReach(prog *ssa.Program, entry *ssa.Function) []string {
	seen := map[*ssa.Function]bool{}
	var labels []string
	var walk func(f *ssa.Function)
	isHarness := func(f *ssa.Function) bool {
		if f == nil || !f.Pos().IsValid() {
			return false
		}
		return strings.Contains(prog.Fset.Position(f.Pos()).Filename, "zz_verif")
	}
	walk = func(f *ssa.Function) {
		if f == nil || seen[f] {
			return
		}
		seen[f] = true
		for _, b := range f.Blocks {
			for _, in := range b.Instrs {
				if mc, ok := in.(*ssa.MakeClosure); ok {
					if cf, ok := mc.Fn.(*ssa.Function); ok {
						walk(cf)
					}
				}
				ci, ok := in.(ssa.CallInstruction)
				if !ok {
					continue
				}
				callee := ci.Common().StaticCallee()
				if callee == nil {
					continue
				}
				if callee.String() == verifPkg+".Reach" {
					if c, ok := ci.Common().Args[0].(*ssa.Const); ok {
						labels = append(labels, constant.StringVal(c.Value))
					}
					continue
				}
				if isHarness(callee) {
					walk(callee)
				}
			}
		}
	}
	walk(entry)
	return labels
}
