package exec

import (
	"fmt"
	"go/constant"
	"go/token"
	"go/types"
	"runtime"
	"sort"
	"strings"
	"sync"
	"time"

	"golang.org/x/tools/go/ssa"

	"sheensverif/gosym/smt"
)

// ---- control-flow signals (Go panics used inside the interpreter) ----

// engineError: the engine cannot continue (unsupported construct, solver unknown, budget). => INCONCLUSIVE
type engineError struct{ msg string }

func (e engineError) Error() string { return e.msg }

func engineErr(f string, a ...interface{}) engineError {
	return engineError{fmt.Sprintf(f, a...)}
}

// pathEnd: the current path stops (pruned by an assumption, or finished early after a violation).
type pathEnd struct{ reason string }

// goPanic: a panic of the interpreted program.
type goPanic struct {
	val Value // interface value
	msg string
}

// ---- tasks and decisions ----

type alt struct {
	cond  *smt.Term // nil = unconditional
	label string
}

type decision struct {
	idx   int
	n     int
	label string
}

// Config parameterises a run.
type Config struct {
	Prog       *ssa.Program
	Entry      *ssa.Function
	Tier       int
	SolverBin  string
	TimeoutMs  int
	Workers    int
	MaxSteps   int64 // per path
	MaxDepth   int   // call depth
	MaxPaths   int64
	Known      map[string]bool // known-finding ids whose exclusion is active
	StrMax     int
	ModulePath string // e.g. github.com/Comcast/sheens
	Deadline   time.Time
	MaxViolations int
	Verbose    bool
	SolverLog  string
}

// Violation describes a failed obligation with its concretised counterexample.
type Violation struct {
	Label  string
	Kind   string // assert | panic | write | deadlock | race
	Detail string
	Cex    *Cex
	Pos    string
}

// Stats aggregates over all paths.
type Stats struct {
	Paths, Pruned, Infeasible int64
	Decisions        int64
	Sat, Unsat, Unknown int64
	SolverTime       time.Duration
	Steps            int64
	Asserts, AssertsProved, AssertsConcrete int64
	Funcs            map[string]int64
	Reach            map[string]int64
	ReachCex         map[string]*Cex
	Bounds           map[string]string
	Models           map[string]bool
	Notes            map[string]int64
	Samples          []*Cex
	MaxTrail         int
}

type Result struct {
	Stats      Stats
	Violations []*Violation
	EngineErr  string
	Wall       time.Duration
}

// Engine explores all paths of Entry.
type Engine struct {
	cfg   Config
	mu    sync.Mutex
	queue [][]int
	busy  int
	cond  *sync.Cond
	res   Result
	stop  bool
	seenViol map[string]bool
	sizes types.Sizes
}

func Run(cfg Config) *Result {
	if cfg.Workers <= 0 {
		cfg.Workers = 8
	}
	if cfg.MaxSteps == 0 {
		cfg.MaxSteps = 2_000_000
	}
	if cfg.MaxDepth == 0 {
		cfg.MaxDepth = 200
	}
	if cfg.StrMax == 0 {
		cfg.StrMax = 8
	}
	if cfg.TimeoutMs == 0 {
		cfg.TimeoutMs = 30000
	}
	if cfg.MaxViolations == 0 {
		cfg.MaxViolations = 3
	}
	e := &Engine{cfg: cfg, seenViol: map[string]bool{}}
	e.cond = sync.NewCond(&e.mu)
	e.res.Stats.Funcs = map[string]int64{}
	e.res.Stats.Reach = map[string]int64{}
	e.res.Stats.ReachCex = map[string]*Cex{}
	e.res.Stats.Bounds = map[string]string{}
	e.res.Stats.Models = map[string]bool{}
	e.res.Stats.Notes = map[string]int64{}
	e.queue = [][]int{nil}
	for _, l := range expectedReach(cfg.Prog, cfg.Entry) {
		e.res.Stats.Reach[l] = 0
	}
	t0 := time.Now()
	var wg sync.WaitGroup
	for w := 0; w < cfg.Workers; w++ {
		wg.Add(1)
		go func(w int) {
			defer wg.Done()
			e.worker(w)
		}(w)
	}
	wg.Wait()
	e.res.Wall = time.Since(t0)
	return &e.res
}

func (e *Engine) worker(id int) {
	solver, err := smt.NewSolver(e.cfg.SolverBin, e.cfg.TimeoutMs)
	if err != nil {
		e.fail("cannot start solver: " + err.Error())
		return
	}
	defer solver.Close()
	for {
		e.mu.Lock()
		for len(e.queue) == 0 && e.busy > 0 && !e.stop {
			e.cond.Wait()
		}
		if e.stop || (len(e.queue) == 0 && e.busy == 0) {
			e.mu.Unlock()
			e.cond.Broadcast()
			return
		}
		// LIFO: depth-first flavour keeps the queue small
		prefix := e.queue[len(e.queue)-1]
		e.queue = e.queue[:len(e.queue)-1]
		e.busy++
		e.mu.Unlock()

		ex := newExec(e, solver, prefix)
		ex.runPath()

		e.mu.Lock()
		e.busy--
		e.merge(ex)
		if e.cfg.MaxPaths > 0 && e.res.Stats.Paths >= e.cfg.MaxPaths && e.res.EngineErr == "" {
			e.res.EngineErr = fmt.Sprintf("path budget %d exhausted", e.cfg.MaxPaths)
			e.stop = true
		}
		if !e.cfg.Deadline.IsZero() && time.Now().After(e.cfg.Deadline) && e.res.EngineErr == "" {
			e.res.EngineErr = "time budget exhausted"
			e.stop = true
		}
		e.mu.Unlock()
		e.cond.Broadcast()
	}
}

func (e *Engine) fail(msg string) {
	e.mu.Lock()
	if e.res.EngineErr == "" {
		e.res.EngineErr = msg
	}
	e.stop = true
	e.mu.Unlock()
	e.cond.Broadcast()
}

func (e *Engine) enqueue(prefix []int) {
	cp := append([]int(nil), prefix...)
	e.mu.Lock()
	e.queue = append(e.queue, cp)
	e.mu.Unlock()
	e.cond.Signal()
}

func (e *Engine) merge(ex *Exec) {
	st := &e.res.Stats
	st.Paths++
	switch ex.outcome {
	case "pruned":
		st.Pruned++
	case "infeasible":
		st.Infeasible++
	}
	st.Decisions += int64(len(ex.trail))
	if len(ex.trail) > st.MaxTrail {
		st.MaxTrail = len(ex.trail)
	}
	st.Steps += ex.steps
	st.Sat += int64(ex.solver.NSat)
	st.Unsat += int64(ex.solver.NUnsat)
	st.Unknown += int64(ex.solver.NUnknown)
	st.SolverTime += ex.solver.Time
	ex.solver.NSat, ex.solver.NUnsat, ex.solver.NUnknown, ex.solver.Time = 0, 0, 0, 0
	st.Asserts += ex.nAsserts
	st.AssertsProved += ex.nProved
	st.AssertsConcrete += ex.nConcrete
	for f, n := range ex.funcs {
		st.Funcs[f.String()] += n
	}
	for k, v := range ex.bounds {
		st.Bounds[k] = v
	}
	for k := range ex.models {
		st.Models[k] = true
	}
	for k, v := range ex.notes {
		st.Notes[k] += v
	}
	for l, c := range ex.reach {
		st.Reach[l]++
		if st.ReachCex[l] == nil && c != nil {
			st.ReachCex[l] = c
		}
	}
	if ex.sample != nil && len(st.Samples) < 4 {
		st.Samples = append(st.Samples, ex.sample)
	}
	if ex.engineErr != "" && e.res.EngineErr == "" {
		e.res.EngineErr = ex.engineErr
		e.stop = true
	}
	for _, v := range ex.violations {
		key := v.Kind + ":" + v.Label
		if e.seenViol[key] {
			continue
		}
		e.seenViol[key] = true
		e.res.Violations = append(e.res.Violations, v)
		if len(e.res.Violations) >= e.cfg.MaxViolations {
			e.stop = true
		}
	}
}

// ---- per-path execution state ----

type symInfo struct {
	name string
	sort smt.Sort
}

type Exec struct {
	eng    *Engine
	cfg    *Config
	prog   *ssa.Program
	solver *smt.Solver

	prefix []int
	trail  []decision
	pcSet  map[string]bool
	pc     []*smt.Term

	syms    []symInfo
	nextSym int
	nextID  int

	globals map[*ssa.Global]*Cell
	inited  map[*ssa.Package]bool

	steps  int64
	depth  int
	outcome string
	engineErr string
	violations []*Violation
	reach  map[string]*Cex
	funcs  map[*ssa.Function]int64
	bounds map[string]string
	models map[string]bool
	notes  map[string]int64
	sample *Cex

	nAsserts, nProved, nConcrete int64

	// inputs recorded in call order for counterexample output
	inputs []*inputRec
	// write monitor
	writes []writeRec
	mapOrderInsertion bool
	logs   []Value

	sched *scheduler
}

type inputRec struct {
	Kind string // json | bindings | string | int | bool | float | choose
	Name string
	Val  Value
	N    int
}

type writeRec struct {
	tag string
	pos string
}

func newExec(e *Engine, solver *smt.Solver, prefix []int) *Exec {
	return &Exec{
		eng: e, cfg: &e.cfg, prog: e.cfg.Prog, solver: solver, prefix: prefix,
		pcSet: map[string]bool{}, globals: map[*ssa.Global]*Cell{}, inited: map[*ssa.Package]bool{},
		reach: map[string]*Cex{}, funcs: map[*ssa.Function]int64{}, bounds: map[string]string{},
		models: map[string]bool{}, notes: map[string]int64{},
	}
}

func (ex *Exec) runPath() {
	ex.solver.Reset()
	ex.outcome = "done"
	defer func() {
		if r := recover(); r != nil {
			switch x := r.(type) {
			case pathEnd:
				ex.outcome = x.reason
			case engineError:
				ex.engineErr = x.msg + ex.where()
				ex.outcome = "engine-error"
			case goPanic:
				// an interpreted panic escaped the harness entry: the harness did not guard it
				ex.engineErr = "uncaught panic in harness: " + x.msg + ex.where()
				ex.outcome = "engine-error"
			default:
				buf := make([]byte, 4096)
				buf = buf[:runtime.Stack(buf, false)]
				ex.engineErr = fmt.Sprintf("internal error: %v%s\n%s", r, ex.where(), buf)
				ex.outcome = "engine-error"
			}
		}
		if ex.sched != nil {
			ex.sched.killAll()
		}
	}()
	ex.callFunction(ex.cfg.Entry, nil, nil)
	if ex.sched != nil {
		ex.sched.finishMain()
	}
}

func (ex *Exec) where() string {
	return " [trail " + ex.trailString() + "]"
}

func (ex *Exec) trailString() string {
	var parts []string
	for _, d := range ex.trail {
		parts = append(parts, fmt.Sprintf("%s=%d/%d", d.label, d.idx, d.n))
	}
	s := strings.Join(parts, " ")
	if len(s) > 600 {
		s = "..." + s[len(s)-600:]
	}
	return s
}

func (ex *Exec) note(k string) { ex.notes[k]++ }

// ---- symbols and path condition ----

func (ex *Exec) fresh(prefix string, sort smt.Sort) *smt.Term {
	name := fmt.Sprintf("%s_%d", sanitize(prefix), ex.nextSym)
	ex.nextSym++
	ex.syms = append(ex.syms, symInfo{name, sort})
	ex.solver.Declare(name, sort)
	return smt.Var(name, sort)
}

func sanitize(s string) string {
	var b strings.Builder
	for _, c := range s {
		if (c >= 'a' && c <= 'z') || (c >= 'A' && c <= 'Z') || (c >= '0' && c <= '9') || c == '_' {
			b.WriteRune(c)
		} else {
			b.WriteByte('_')
		}
	}
	if b.Len() == 0 {
		return "v"
	}
	return b.String()
}

// freshString creates a symbolic string with the global side conditions (length bound, printable ASCII).
func (ex *Exec) freshString(prefix string) *smt.Term {
	t := ex.fresh(prefix, smt.Str)
	ex.addPC(&smt.Term{S: fmt.Sprintf("(<= (str.len %s) %d)", t.S, ex.cfg.StrMax), Sort: smt.Bool})
	ex.addPC(&smt.Term{S: fmt.Sprintf(`(str.in_re %s (re.* (re.range " " "~")))`, t.S), Sort: smt.Bool})
	return t
}

// addPC asserts t without a feasibility check.
func (ex *Exec) addPC(t *smt.Term) {
	if t == nil || t.S == "true" {
		return
	}
	if ex.pcSet[t.S] {
		return
	}
	ex.pcSet[t.S] = true
	ex.pc = append(ex.pc, t)
	ex.solver.Assert(t)
}

func (ex *Exec) check() smt.Result {
	r, err := ex.solver.Check()
	if err != nil {
		panic(engineErr("solver: %v", err))
	}
	if r == smt.Unknown {
		panic(engineErr("solver answered unknown"))
	}
	return r
}

// feasible reports whether PC ∧ t is satisfiable.
func (ex *Exec) feasible(t *smt.Term) bool {
	if t == nil || t.S == "true" {
		return true
	}
	if t.S == "false" {
		return false
	}
	if ex.pcSet[t.S] {
		return true
	}
	if ex.pcSet[smt.Not(t).S] {
		return false
	}
	ex.solver.Push()
	ex.solver.Assert(t)
	r := ex.check()
	ex.solver.Pop()
	return r == smt.Sat
}

// choose picks one of the alternatives; new decisions enqueue the other feasible ones as tasks.
func (ex *Exec) choose(label string, alts []alt) int {
	pos := len(ex.trail)
	if pos < len(ex.prefix) {
		idx := ex.prefix[pos]
		if idx >= len(alts) {
			panic(engineErr("replay mismatch at decision %d (%s): idx %d of %d", pos, label, idx, len(alts)))
		}
		ex.trail = append(ex.trail, decision{idx, len(alts), label})
		ex.addPC(alts[idx].cond)
		return idx
	}
	var feas []int
	for i, a := range alts {
		if ex.feasible(a.cond) {
			feas = append(feas, i)
		}
	}
	if len(feas) == 0 {
		panic(pathEnd{"infeasible"})
	}
	cur := make([]int, len(ex.trail), len(ex.trail)+1)
	for i, d := range ex.trail {
		cur[i] = d.idx
	}
	for _, i := range feas[1:] {
		ex.eng.enqueue(append(cur, i))
	}
	idx := feas[0]
	ex.trail = append(ex.trail, decision{idx, len(alts), label})
	ex.addPC(alts[idx].cond)
	return idx
}

// chooseN is an unconditional n-way choice.
func (ex *Exec) chooseN(label string, n int) int {
	if n <= 1 {
		return 0
	}
	alts := make([]alt, n)
	return ex.choose(label, alts)
}

// branch decides a (possibly symbolic) boolean.
func (ex *Exec) branch(label string, c Value) bool {
	switch x := c.(type) {
	case bool:
		return x
	case *smt.Term:
		if x.S == "true" {
			return true
		}
		if x.S == "false" {
			return false
		}
		if ex.pcSet[x.S] {
			return true
		}
		if ex.pcSet[smt.Not(x).S] {
			return false
		}
		return ex.choose(label, []alt{{cond: x}, {cond: smt.Not(x)}}) == 0
	}
	panic(engineErr("branch on %T", c))
}

// assume restricts the path; an unsatisfiable assumption prunes it.
func (ex *Exec) assume(c Value) {
	switch x := c.(type) {
	case bool:
		if !x {
			panic(pathEnd{"pruned"})
		}
	case *smt.Term:
		if !ex.feasible(x) {
			panic(pathEnd{"pruned"})
		}
		ex.addPC(x)
	default:
		panic(engineErr("assume on %T", c))
	}
}

// model returns model values for all symbols (the current assertion stack must be satisfiable).
func (ex *Exec) model(extra *smt.Term) (map[string]string, bool) {
	ex.solver.Push()
	defer ex.solver.Pop()
	if extra != nil {
		ex.solver.Assert(extra)
	}
	if ex.check() != smt.Sat {
		return nil, false
	}
	names := make([]string, len(ex.syms))
	for i, s := range ex.syms {
		names[i] = s.name
	}
	if len(names) == 0 {
		return map[string]string{}, true
	}
	m, err := ex.solver.GetValues(names)
	if err != nil {
		panic(engineErr("get-value: %v", err))
	}
	return m, true
}

func (ex *Exec) violation(kind, label, detail string, extra *smt.Term, pos string) {
	m, ok := ex.model(extra)
	if !ok {
		return
	}
	cex := ex.buildCex(m)
	cex.Label = label
	cex.Kind = kind
	ex.violations = append(ex.violations, &Violation{Label: label, Kind: kind, Detail: detail, Cex: cex, Pos: pos})
}

// assert checks an obligation on the current path.
func (ex *Exec) assertObl(label string, c Value, pos string) {
	ex.nAsserts++
	switch x := c.(type) {
	case bool:
		ex.nConcrete++
		if !x {
			ex.violation("assert", label, "assertion is false on this path", nil, pos)
			panic(pathEnd{"violation"})
		}
	case *smt.Term:
		neg := smt.Not(x)
		if ex.feasible(neg) {
			ex.violation("assert", label, "assertion can be false", neg, pos)
			panic(pathEnd{"violation"})
		}
		ex.nProved++
		ex.addPC(x)
	default:
		panic(engineErr("assert on %T", c))
	}
}

func (ex *Exec) posOf(p token.Pos) string {
	if !p.IsValid() {
		return ""
	}
	return ex.prog.Fset.Position(p).String()
}

func sortedKeys(m map[string]int64) []string {
	var ks []string
	for k := range m {
		ks = append(ks, k)
	}
	sort.Strings(ks)
	return ks
}

// expectedReach collects the constant labels of verif.Reach calls statically reachable from the
// harness entry through harness code (files named zz_verif_*), for the vacuity check.
func expectedReach(prog *ssa.Program, entry *ssa.Function) []string {
	seen := map[*ssa.Function]bool{}
	var labels []string
	var walk func(f *ssa.Function)
	isHarness := func(f *ssa.Function) bool {
		if f == nil || !f.Pos().IsValid() {
			return false
		}
		return strings.Contains(prog.Fset.Position(f.Pos()).Filename, "zz_verif")
	}
	walk = func(f *ssa.Function) {
		if f == nil || seen[f] {
			return
		}
		seen[f] = true
		for _, b := range f.Blocks {
			for _, in := range b.Instrs {
				if mc, ok := in.(*ssa.MakeClosure); ok {
					if cf, ok := mc.Fn.(*ssa.Function); ok {
						walk(cf)
					}
				}
				ci, ok := in.(ssa.CallInstruction)
				if !ok {
					continue
				}
				callee := ci.Common().StaticCallee()
				if callee == nil {
					continue
				}
				if callee.String() == verifPkg+".Reach" {
					if c, ok := ci.Common().Args[0].(*ssa.Const); ok {
						labels = append(labels, constant.StringVal(c.Value))
					}
					continue
				}
				if isHarness(callee) {
					walk(callee)
				}
			}
		}
	}
	walk(entry)
	return labels
}
