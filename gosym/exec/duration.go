package exec

import "time"

func parseDuration(s string) (int64, error) {
	d, err := time.ParseDuration(s)
	return int64(d), err
}
