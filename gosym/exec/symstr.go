package exec

import (
	"fmt"
	"strings"

	"sheensverif/gosym/smt"
)

// SymStr is a symbolic string of bounded capacity encoded in the bit-vector theory:
// a length (BV8) and one BV8 per position.  Invariant (asserted for fresh strings, preserved by
// every operation): Len <= len(Ch) and Ch[i] = 0 for every i >= Len.  With that normal form string
// equality is component-wise equality.
type SymStr struct {
	Len *smt.Term
	Ch  []*smt.Term
	// id is a short stable rendering used for syntactic caching of equalities
	id string
}

func bv8(v int) *smt.Term { return smt.BVConst(uint64(v), 8) }

func (s *SymStr) String() string {
	if s.id == "" {
		var b strings.Builder
		b.WriteString("str(" + s.Len.S)
		for _, c := range s.Ch {
			b.WriteString(" " + c.S)
		}
		b.WriteString(")")
		s.id = b.String()
	}
	return s.id
}

func constSym(s string) *SymStr {
	r := &SymStr{Len: bv8(len(s)), Ch: make([]*smt.Term, len(s))}
	for i := 0; i < len(s); i++ {
		r.Ch[i] = bv8(int(s[i]))
	}
	return r
}

// EncStr is the text of a JSON encoding (string(js) of a model-encoded value): it is never inspected,
// only compared; two encodings are the same text iff the encoded values are structurally equal
// (encoding/json sorts map keys and formats equal numbers equally).
type EncStr struct {
	v Value
}

func toSym(v Value) *SymStr {
	switch x := v.(type) {
	case *SymStr:
		return x
	case string:
		if len(x) > 200 {
			panic(engineErr("string constant too long for symbolic string operation (%d bytes)", len(x)))
		}
		return constSym(x)
	}
	panic(engineErr("toSym on %T", v))
}

func isSymStr(v Value) bool { _, ok := v.(*SymStr); return ok }

// at returns the character at position i (0 beyond capacity).
func (s *SymStr) at(i int) *smt.Term {
	if i < len(s.Ch) {
		return s.Ch[i]
	}
	return bv8(0)
}

// freshString creates a symbolic string: length <= StrMax, printable ASCII, normal form.
func (ex *Exec) freshString(prefix string) *SymStr {
	n := ex.cfg.StrMax
	base := fmt.Sprintf("%s_%d", sanitize(prefix), ex.nextSym)
	ex.nextSym++
	s := &SymStr{Ch: make([]*smt.Term, n)}
	ln := base + "_len"
	ex.syms = append(ex.syms, symInfo{ln, smt.BV8})
	ex.symSet[ln] = true
	if !ex.mute {
		ex.solver.Declare(ln, smt.BV8)
	}
	s.Len = smt.Var(ln, smt.BV8)
	conds := []*smt.Term{smt.BVCmp("bvule", s.Len, bv8(n))}
	for i := 0; i < n; i++ {
		cn := fmt.Sprintf("%s_c%d", base, i)
		ex.syms = append(ex.syms, symInfo{cn, smt.BV8})
		ex.symSet[cn] = true
		if !ex.mute {
			ex.solver.Declare(cn, smt.BV8)
		}
		c := smt.Var(cn, smt.BV8)
		s.Ch[i] = c
		in := smt.BVCmp("bvugt", s.Len, bv8(i))
		conds = append(conds, smt.Ite(in,
			smt.And(smt.BVCmp("bvuge", c, bv8(0x20)), smt.BVCmp("bvule", c, bv8(0x7e))),
			smt.Same(c, bv8(0))))
	}
	ex.addSide(smt.And(conds...))
	return s
}

// strEq: equality of two strings (either may be concrete).
func strEq(a, b Value) Value {
	if _, ok := a.(*EncStr); ok {
		panic(engineErr("comparison of a JSON text outside Exec.equal"))
	}
	if _, ok := b.(*EncStr); ok {
		panic(engineErr("comparison of a JSON text outside Exec.equal"))
	}
	if x, ok := a.(string); ok {
		if y, ok := b.(string); ok {
			return x == y
		}
	}
	sa, sb := toSym(a), toSym(b)
	if sa == sb || sa.String() == sb.String() {
		return true
	}
	// canonical operand order so that (a==b) and (b==a) render identically
	if sa.String() > sb.String() {
		sa, sb = sb, sa
	}
	n := len(sa.Ch)
	if len(sb.Ch) < n {
		n = len(sb.Ch)
	}
	conds := []*smt.Term{smt.Same(sa.Len, sb.Len)}
	for i := 0; i < n; i++ {
		conds = append(conds, smt.Same(sa.Ch[i], sb.Ch[i]))
	}
	// a longer operand must not use positions the shorter cannot have
	if len(sa.Ch) > n {
		conds = append(conds, smt.BVCmp("bvule", sa.Len, bv8(n)))
	}
	if len(sb.Ch) > n {
		conds = append(conds, smt.BVCmp("bvule", sb.Len, bv8(n)))
	}
	return simplifyBool(smt.And(conds...))
}

func simplifyBool(t *smt.Term) Value {
	switch t.S {
	case "true":
		return true
	case "false":
		return false
	}
	return t
}

// strHasPrefix: p is a prefix of s.
func strHasPrefix(s, p Value) Value {
	if x, ok := s.(string); ok {
		if y, ok := p.(string); ok {
			return strings.HasPrefix(x, y)
		}
	}
	ss, sp := toSym(s), toSym(p)
	conds := []*smt.Term{smt.BVCmp("bvule", sp.Len, ss.Len)}
	for i := range sp.Ch {
		// position i matters iff i < len(p)
		conds = append(conds, smt.Or(smt.BVCmp("bvule", sp.Len, bv8(i)), smt.Same(sp.Ch[i], ss.at(i))))
	}
	return simplifyBool(smt.And(conds...))
}

// strHasSuffix: p is a suffix of s.
func strHasSuffix(s, p Value) Value {
	if x, ok := s.(string); ok {
		if y, ok := p.(string); ok {
			return strings.HasSuffix(x, y)
		}
	}
	ss := toSym(s)
	pc, ok := p.(string)
	if !ok {
		panic(engineErr("HasSuffix with symbolic suffix"))
	}
	k := len(pc)
	if k == 0 {
		return true
	}
	// case split over the length of s
	var alts []*smt.Term
	for L := k; L <= len(ss.Ch); L++ {
		conds := []*smt.Term{smt.Same(ss.Len, bv8(L))}
		for j := 0; j < k; j++ {
			conds = append(conds, smt.Same(ss.Ch[L-k+j], bv8(int(pc[j]))))
		}
		alts = append(alts, smt.And(conds...))
	}
	return simplifyBool(smt.Or(alts...))
}

// strConcat: a ++ b.
func strConcat(a, b Value) Value {
	if x, ok := a.(string); ok {
		if y, ok := b.(string); ok {
			return x + y
		}
		if x == "" {
			return b
		}
	}
	if y, ok := b.(string); ok && y == "" {
		return a
	}
	sa, sb := toSym(a), toSym(b)
	capN := len(sa.Ch) + len(sb.Ch)
	if capN > 250 {
		panic(engineErr("symbolic string too long (%d)", capN))
	}
	r := &SymStr{Len: smt.BVBin("bvadd", sa.Len, sb.Len), Ch: make([]*smt.Term, capN)}
	if la, ok := constLen(sa); ok {
		// concrete split point: plain shifting
		for i := 0; i < capN; i++ {
			if i < la {
				r.Ch[i] = sa.Ch[i]
			} else {
				r.Ch[i] = sb.at(i - la)
			}
		}
		r.Ch = r.Ch[:la+len(sb.Ch)]
		return r
	}
	for i := 0; i < capN; i++ {
		// r[i] = a[i] if i < lenA else b[i-lenA]; enumerate lenA
		var t *smt.Term = bv8(0)
		for la := len(sa.Ch); la >= 0; la-- {
			if i < la {
				continue // under this lenA position i belongs to a: handled by the outer ite below
			}
			t = smt.Ite(smt.Same(sa.Len, bv8(la)), sb.at(i-la), t)
		}
		if i < len(sa.Ch) {
			t = smt.Ite(smt.BVCmp("bvugt", sa.Len, bv8(i)), sa.Ch[i], t)
		}
		r.Ch[i] = t
	}
	return r
}

func constLen(s *SymStr) (int, bool) {
	if strings.HasPrefix(s.Len.S, "#x") && len(s.Len.S) == 4 {
		var v int
		fmt.Sscanf(s.Len.S[2:], "%x", &v)
		return v, true
	}
	return 0, false
}

// strLenTerm: len(s) as a 64-bit value.
func strLenValue(s *SymStr) Value {
	if n, ok := constLen(s); ok {
		return int64(n)
	}
	return smt.BVResize(s.Len, 64, false)
}

// strSuffixFrom: s[lo:] for a concrete lo (caller has established lo <= len(s)).
func strSuffixFrom(s *SymStr, lo int) *SymStr {
	if lo == 0 {
		return s
	}
	n := len(s.Ch) - lo
	if n < 0 {
		n = 0
	}
	r := &SymStr{Len: smt.BVBin("bvsub", s.Len, bv8(lo)), Ch: make([]*smt.Term, n)}
	if cl, ok := constLen(s); ok {
		r.Len = bv8(cl - lo)
	}
	for i := 0; i < n; i++ {
		r.Ch[i] = s.Ch[i+lo]
	}
	return r
}

// strPrefixTo: s[:hi] for a concrete hi (caller has established hi <= len(s)).
func strPrefixTo(s *SymStr, hi int) *SymStr {
	if hi > len(s.Ch) {
		hi = len(s.Ch)
	}
	r := &SymStr{Len: bv8(hi), Ch: make([]*smt.Term, hi)}
	copy(r.Ch, s.Ch[:hi])
	return r
}

// strLess: lexicographic a < b (bytes).
func strLess(a, b Value, orEq bool) Value {
	if x, ok := a.(string); ok {
		if y, ok := b.(string); ok {
			if orEq {
				return x <= y
			}
			return x < y
		}
	}
	sa, sb := toSym(a), toSym(b)
	n := len(sa.Ch)
	if len(sb.Ch) > n {
		n = len(sb.Ch)
	}
	// thanks to the normal form (0 padding, printable chars >= 0x20) comparing padded vectors is lexicographic order
	var res *smt.Term
	if orEq {
		res = smt.True
	} else {
		res = smt.False
	}
	for i := n - 1; i >= 0; i-- {
		ca, cb := sa.at(i), sb.at(i)
		res = smt.Ite(smt.Same(ca, cb), res, smt.BVCmp("bvult", ca, cb))
	}
	return simplifyBool(res)
}

// strNotVar: the string does not begin with '?'.
func strNotVar(s *SymStr) *smt.Term {
	if len(s.Ch) == 0 {
		return smt.True
	}
	return smt.Not(smt.Same(s.Ch[0], bv8('?')))
}

// uniqueString: the one value the path condition leaves for s, if there is exactly one (two solver calls:
// a model, then "can it be anything else?").
func (ex *Exec) uniqueString(s *SymStr) (string, bool) {
	ex.solverDirty = true
	ex.solver.Push()
	if ex.check() != smt.Sat {
		ex.solver.Pop()
		ex.solverDirty = false
		return "", false
	}
	names := []string{s.Len.S}
	for _, ch := range s.Ch {
		names = append(names, ch.S)
	}
	m, err := ex.solver.GetValues(names)
	ex.solver.Pop()
	ex.solverDirty = false
	if err != nil {
		return "", false
	}
	dec := func(t *smt.Term) (uint64, bool) {
		if len(t.S) > 2 && t.S[:2] == "#x" {
			u, err := smt.DecodeBV(t.S)
			return u, err == nil
		}
		mv, have := m[t.S]
		if !have {
			return 0, false
		}
		u, err := smt.DecodeBV(mv)
		return u, err == nil
	}
	n, ok := dec(s.Len)
	if !ok || int(n) > len(s.Ch) {
		return "", false
	}
	b := make([]byte, n)
	for i := range b {
		u, ok := dec(s.Ch[i])
		if !ok {
			return "", false
		}
		b[i] = byte(u)
	}
	cand := string(b)
	switch eq := strEq(s, cand).(type) {
	case bool:
		return cand, eq
	case *smt.Term:
		if ex.feasible(smt.Not(eq)) {
			return "", false
		}
		return cand, true
	}
	return "", false
}
