package exec

import (
	"fmt"
	"go/types"

	"golang.org/x/tools/go/ssa"

	"sheensverif/gosym/smt"
)

// JSON tag universe.
const (
	TNil = 1 << iota
	TBool
	TF64
	TStr
	TMap
	TArr
	TI64
	TInt
	TAlien
	tagMax
)

const (
	TagsJSON    = TNil | TBool | TF64 | TStr | TMap | TArr
	TagsScalars = TNil | TBool | TF64 | TStr
)

func tagName(t int) string {
	switch t {
	case TNil:
		return "nil"
	case TBool:
		return "bool"
	case TF64:
		return "float64"
	case TStr:
		return "string"
	case TMap:
		return "map"
	case TArr:
		return "array"
	case TI64:
		return "int64"
	case TInt:
		return "int"
	case TAlien:
		return "alien"
	}
	return "?"
}

// JSONOpts are the bounds and side conditions of one lazy input.
type JSONOpts struct {
	Name      string
	Depth     int  // containers allowed down to this depth (0 = scalars only)
	Width     int  // max entries per container
	Nodes     int  // node budget (0 = unlimited)
	Tags      int  // tag universe at container-capable depths
	Leaf      int  // tag universe below Depth
	NoVar     bool // string values do not start with '?'
	NoVarKeys bool // map keys do not start with '?'
	Finite    bool // numbers are finite (JSON cannot carry NaN/Inf)
	Own       *Owner
	used      int
	// StrPool: when non-empty, every string leaf/key is one of these constants (small vocabulary)
	StrPool []string
	// ValPool: when non-empty, every string VALUE is one of these constants
	ValPool []string
	// NoEmptyKey etc. could be added here
}

type lazyMapSpec struct {
	opts  *JSONOpts
	depth int
	name  string
	elem  func(i int) Value // nil: lazy JSON children
	min   int
}

// Lazy is an interface{} value whose dynamic type has not been fixed yet.
type Lazy struct {
	ID         int
	Name       string
	Dom        int
	Depth      int
	Opts       *JSONOpts
	Res        *Iface
	domTouched bool
	// CopyOf: this value is the JSON round-trip image of another lazy value (resolved on demand)
	CopyOf *Lazy
}

// tagOfIface: the tag of a resolved interface value.
func tagOfIface(iv Iface) int {
	if iv.T == nil {
		return TNil
	}
	return tagOfType(iv.T)
}

// syncCopy keeps the domains of a mirrored copy and its source consistent.
func (ex *Exec) syncCopy(l *Lazy) {
	src := l.CopyOf
	if src == nil || l.Res != nil {
		return
	}
	ex.syncCopy(src)
	if src.Res != nil {
		l.Dom &= copyDom(tagOfIface(*src.Res))
	} else {
		l.Dom &= copyDom(src.Dom)
	}
	if l.Dom == 0 {
		panic(pathEnd{"infeasible"})
	}
}

// narrowSource propagates a narrowed copy domain back to the source.
func (ex *Exec) narrowSource(l *Lazy) {
	src := l.CopyOf
	if src == nil {
		return
	}
	if src.Res == nil {
		src.Dom &= srcTags(l.Dom)
		src.domTouched = true
		if src.Dom == 0 {
			panic(pathEnd{"infeasible"})
		}
		ex.narrowSource(src)
	}
}

var (
	tEmptyIface = types.NewInterfaceType(nil, nil)
	tMapSI      = types.NewMap(types.Typ[types.String], tEmptyIface)
	tSliceI     = types.NewSlice(tEmptyIface)
	tAlien      = types.NewStruct(nil, nil)
)

func init() { tEmptyIface.Complete() }

func (ex *Exec) newLazy(name string, depth int, o *JSONOpts) *Lazy {
	ex.nextID++
	dom := o.Tags
	if depth <= 0 {
		dom = o.Leaf
	}
	if dom == 0 {
		dom = TagsScalars
	}
	return &Lazy{ID: ex.nextID, Name: name, Dom: dom, Depth: depth, Opts: o}
}

// tagOfType maps a Go type to its tag (0 if the type is outside the universe).
func tagOfType(t types.Type) int {
	switch u := t.(type) {
	case *types.Basic:
		switch u.Kind() {
		case types.Bool:
			return TBool
		case types.Float64:
			return TF64
		case types.String:
			return TStr
		case types.Int64:
			return TI64
		case types.Int:
			return TInt
		}
	case *types.Map:
		if types.Identical(u, tMapSI) {
			return TMap
		}
	case *types.Slice:
		if types.Identical(u, tSliceI) {
			return TArr
		}
	case *types.Struct:
		if u.NumFields() == 0 {
			return TAlien
		}
	case *types.Alias:
		return tagOfType(types.Unalias(u))
	}
	return 0
}

func tags(dom int) []int {
	var r []int
	for t := 1; t < tagMax; t <<= 1 {
		if dom&t != 0 {
			r = append(r, t)
		}
	}
	return r
}

// restrict narrows the domain by a fork "in set / not in set". Returns true if in set.
func (ex *Exec) lazyRestrict(l *Lazy, set int, label string) bool {
	l.domTouched = true
	ex.syncCopy(l)
	defer ex.narrowSource(l)
	in := l.Dom & set
	out := l.Dom &^ set
	if in == 0 {
		return false
	}
	if out == 0 {
		return true
	}
	if ex.chooseN(label, 2) == 0 {
		l.Dom = in
		return true
	}
	l.Dom = out
	return false
}

// lazyResolve fixes the dynamic type (domain must be a singleton) and materialises the value.
func (ex *Exec) lazyResolve(l *Lazy) Iface {
	if l.Res != nil {
		return *l.Res
	}
	ts := tags(l.Dom)
	if len(ts) != 1 {
		panic(engineErr("lazyResolve with domain %v", ts))
	}
	if l.CopyOf != nil {
		return ex.resolveCopy(l)
	}
	o := l.Opts
	var r Iface
	switch ts[0] {
	case TNil:
		r = Iface{}
	case TBool:
		r = Iface{T: types.Typ[types.Bool], V: ex.fresh(l.Name+"_b", smt.Bool)}
	case TF64:
		f := ex.fresh(l.Name+"_f", smt.FP64)
		if o.Finite {
			ex.addSide(smt.Not(smt.FPIsNaN(f)))
			ex.addSide(smt.Not(smt.FPIsInf(f)))
		}
		r = Iface{T: types.Typ[types.Float64], V: f}
	case TStr:
		r = Iface{T: types.Typ[types.String], V: ex.lazyString(l.Name+"_s", o, false)}
	case TI64:
		r = Iface{T: types.Typ[types.Int64], V: ex.fresh(l.Name+"_i", smt.BV64)}
	case TInt:
		r = Iface{T: types.Typ[types.Int], V: ex.fresh(l.Name+"_n", smt.BV64)}
	case TAlien:
		r = Iface{T: tAlien, V: &Struct{}}
	case TMap:
		ex.nextID++
		m := &Map{ID: ex.nextID, T: tMapSI, Own: o.Own, Origin: l,
			Unsized: &lazyMapSpec{opts: o, depth: l.Depth - 1, name: l.Name}}
		r = Iface{T: tMapSI, V: m}
	case TArr:
		max := o.Width
		if o.Nodes > 0 && o.Nodes-o.used < max {
			max = o.Nodes - o.used
		}
		if max < 0 {
			max = 0
		}
		n := ex.chooseN("arrlen:"+l.Name, max+1)
		o.used += n
		arr := &Array{E: make([]*Cell, n), Own: o.Own}
		for i := range arr.E {
			arr.E[i] = &Cell{V: ex.newLazy(fmt.Sprintf("%s_%d", l.Name, i), l.Depth-1, o), Own: o.Own}
			arr.OrigE = append(arr.OrigE, arr.E[i].V)
		}
		r = Iface{T: tSliceI, V: Slice{Arr: arr, Len: n, Cap: n}}
	}
	l.Res = &r
	return r
}

func (ex *Exec) lazyString(name string, o *JSONOpts, isKey bool) Value {
	if isKey && len(o.StrPool) > 0 {
		i := ex.chooseN("pool:"+name, len(o.StrPool))
		return o.StrPool[i]
	}
	if !isKey && len(o.ValPool) > 0 {
		i := ex.chooseN("pool:"+name, len(o.ValPool))
		return o.ValPool[i]
	}
	s := ex.freshString(name)
	if (o.NoVar && !isKey) || (o.NoVarKeys && isKey) {
		ex.addSide(strNotVar(s))
	}
	return s
}

// forceMap chooses the size of a lazily created input map and creates its entries.
func (ex *Exec) forceMap(m *Map) {
	if m == nil || m.Unsized == nil {
		return
	}
	sp := m.Unsized
	m.Unsized = nil
	o := sp.opts
	max := o.Width
	if o.Nodes > 0 && o.Nodes-o.used < max {
		max = o.Nodes - o.used
	}
	if max < sp.min {
		max = sp.min
	}
	n := sp.min + ex.chooseN("maplen:"+sp.name, max-sp.min+1)
	o.used += n
	for i := 0; i < n; i++ {
		k := ex.lazyString(fmt.Sprintf("%s_k%d", sp.name, i), o, true)
		// keys pairwise distinct
		for _, e := range m.Entries {
			eq := ex.equal(types.Typ[types.String], e.K, k, nil)
			switch c := eq.(type) {
			case bool:
				if c {
					panic(pathEnd{"pruned"}) // duplicate pool key: not a map
				}
			case *smt.Term:
				ex.addPC(smt.Not(c))
			}
		}
		var v Value
		if sp.elem != nil {
			v = sp.elem(i)
		} else {
			v = ex.newLazy(fmt.Sprintf("%s_v%d", sp.name, i), sp.depth, o)
		}
		m.Entries = append(m.Entries, &MapEntry{K: k, V: v, Input: true, OrigV: v})
	}
	m.InputMap = true
	if n > 1 && len(o.StrPool) == 0 && !ex.replaying() {
		// distinctness constraints may be jointly unsatisfiable only with tiny alphabets; check once
		if ex.check() != smt.Sat {
			panic(pathEnd{"infeasible"})
		}
	}
}

// lazyForce resolves completely, forking over the remaining domain.
func (ex *Exec) lazyForce(l *Lazy) Iface {
	if l.Res != nil {
		return *l.Res
	}
	l.domTouched = true
	ex.syncCopy(l)
	ts := tags(l.Dom)
	if len(ts) > 1 {
		i := ex.chooseN("tag:"+l.Name, len(ts))
		l.Dom = ts[i]
	}
	ex.narrowSource(l)
	return ex.lazyResolve(l)
}

func (ex *Exec) lazyIsNil(l *Lazy) Value {
	if l.Res != nil {
		return l.Res.T == nil
	}
	if ex.lazyRestrict(l, TNil, "isnil:"+l.Name) {
		ex.lazyResolve(l)
		return true
	}
	return false
}

func (ex *Exec) lazyTypeAssert(in *ssa.TypeAssert, l *Lazy, fr *frame) Value {
	if l.Res != nil {
		return ex.typeAssertIface(in, *l.Res, fr)
	}
	if it, isIface := in.AssertedType.Underlying().(*types.Interface); isIface {
		if it.NumMethods() == 0 {
			// x.(interface{}) succeeds iff non-nil
			if ex.lazyRestrict(l, TNil, "isnil:"+l.Name) {
				return ex.assertResult(in, ex.lazyResolve(l), false, fr)
			}
			return ex.assertResultLazy(in, l, fr)
		}
		// no JSON value implements a non-empty interface
		if in.CommaOk {
			return Tuple{zero(in.AssertedType), false}
		}
		iv := ex.lazyForce(l)
		return ex.assertResult(in, iv, false, fr)
	}
	tag := tagOfType(in.AssertedType)
	if tag == 0 || l.Dom&tag == 0 {
		// cannot be this type
		if in.CommaOk {
			return Tuple{zero(in.AssertedType), false}
		}
		iv := ex.lazyForce(l)
		return ex.assertResult(in, iv, false, fr)
	}
	if ex.lazyRestrict(l, tag, "is-"+tagName(tag)+":"+l.Name) {
		iv := ex.lazyResolve(l)
		return ex.assertResult(in, iv, true, fr)
	}
	if in.CommaOk {
		return Tuple{zero(in.AssertedType), false}
	}
	iv := ex.lazyForce(l)
	return ex.assertResult(in, iv, false, fr)
}

func (ex *Exec) assertResultLazy(in *ssa.TypeAssert, l *Lazy, fr *frame) Value {
	if in.CommaOk {
		return Tuple{l, true}
	}
	return l
}

func (ex *Exec) typeAssertIface(in *ssa.TypeAssert, iv Iface, fr *frame) Value {
	ok := false
	if iv.T != nil {
		if it, isIface := in.AssertedType.Underlying().(*types.Interface); isIface {
			ok = ex.implements(iv, it)
		} else {
			ok = types.Identical(iv.T, in.AssertedType)
		}
	}
	return ex.assertResult(in, iv, ok, fr)
}
