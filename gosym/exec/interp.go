package exec

import (
	"fmt"
	"go/constant"
	"go/token"
	"go/types"

	"golang.org/x/tools/go/ssa"

	"sheensverif/gosym/smt"
)

type deferred struct {
	fn   Value
	args []Value
	site *ssa.Defer
}

type frame struct {
	ex        *Exec
	fn        *ssa.Function
	caller    *frame
	env       map[ssa.Value]Value
	block     *ssa.BasicBlock
	prev      *ssa.BasicBlock
	defers    []*deferred
	result    Value
	panicking bool
	panicVal  goPanic
	curInstr  ssa.Instruction
}

func (ex *Exec) replaying() bool { return len(ex.trail) < len(ex.prefix) }

func (fr *frame) get(v ssa.Value) Value {
	switch v := v.(type) {
	case *ssa.Const:
		return fr.ex.constValue(v)
	case *ssa.Global:
		return fr.ex.global(v)
	case *ssa.Function:
		return v
	case *ssa.Builtin:
		return v
	}
	if r, ok := fr.env[v]; ok {
		return r
	}
	panic(engineErr("get: no value for %T %s in %s", v, v.Name(), fr.fn))
}

func (ex *Exec) constValue(c *ssa.Const) Value {
	t := c.Type()
	if c.Value == nil {
		return zero(t)
	}
	switch u := t.Underlying().(type) {
	case *types.Basic:
		switch {
		case u.Info()&types.IsBoolean != 0:
			return constant.BoolVal(c.Value)
		case u.Info()&types.IsInteger != 0:
			if u.Info()&types.IsUnsigned != 0 {
				v, _ := constant.Uint64Val(constant.ToInt(c.Value))
				return normInt(int64(v), t)
			}
			v, _ := constant.Int64Val(constant.ToInt(c.Value))
			return normInt(v, t)
		case u.Info()&types.IsFloat != 0:
			v, _ := constant.Float64Val(c.Value)
			if u.Kind() == types.Float32 {
				return float64(float32(v))
			}
			return v
		case u.Info()&types.IsString != 0:
			if c.Value.Kind() == constant.String {
				return constant.StringVal(c.Value)
			}
			// string(rune) constant
			v, _ := constant.Int64Val(c.Value)
			return string(rune(v))
		}
	case *types.Interface:
		// typed constant converted to interface cannot occur (MakeInterface is explicit)
	}
	panic(engineErr("const of type %s", t))
}

func (ex *Exec) global(g *ssa.Global) *Cell {
	if c, ok := ex.globals[g]; ok {
		return c
	}
	ex.ensureInit(g.Pkg)
	if c, ok := ex.globals[g]; ok {
		return c
	}
	c := &Cell{V: zero(g.Type().(*types.Pointer).Elem())}
	ex.globals[g] = c
	return c
}

// ensureInit runs the package initialiser of module packages (once per path).
func (ex *Exec) ensureInit(p *ssa.Package) {
	if p == nil || ex.inited[p] {
		return
	}
	ex.inited[p] = true
	for _, m := range p.Members {
		if g, ok := m.(*ssa.Global); ok {
			if _, have := ex.globals[g]; !have {
				ex.globals[g] = &Cell{V: zero(g.Type().(*types.Pointer).Elem())}
			}
		}
	}
	if !ex.isModulePkg(p) && !ex.initWanted(p) {
		return
	}
	if init := p.Func("init"); init != nil && len(init.Blocks) > 0 {
		saved := ex.initRunning
		ex.initRunning = init
		ex.callFunction(init, nil, nil)
		ex.initRunning = saved
	}
}

func (ex *Exec) isModulePkg(p *ssa.Package) bool {
	if p == nil || p.Pkg == nil {
		return false
	}
	path := p.Pkg.Path()
	return path == ex.cfg.ModulePath || len(path) > len(ex.cfg.ModulePath) && path[:len(ex.cfg.ModulePath)+1] == ex.cfg.ModulePath+"/"
}

// initWanted: dependency packages whose initialiser only creates sentinel values that the code under
// test compares against (io.EOF).
func (ex *Exec) initWanted(p *ssa.Package) bool {
	switch p.Pkg.Path() {
	case "io":
		return true
	}
	return false
}

// ---- calls ----

func (ex *Exec) call(fn Value, args []Value, site ssa.CallInstruction, caller *frame) Value {
	switch f := fn.(type) {
	case *ssa.Function:
		if f == nil {
			panic(engineErr("call of nil *ssa.Function"))
		}
		return ex.callFunction(f, args, caller)
	case *Closure:
		if f == nil {
			ex.goPanicf("invalid memory address or nil pointer dereference (call of nil func)")
		}
		return ex.callClosure(f, args, caller)
	case *ssa.Builtin:
		return ex.callBuiltin(f, args, site, caller)
	case *nativeFunc:
		return f.f(ex, caller, args)
	}
	panic(engineErr("call of %T", fn))
}

type nativeFunc struct {
	name string
	f    func(ex *Exec, caller *frame, args []Value) Value
}

func (ex *Exec) callClosure(c *Closure, args []Value, caller *frame) Value {
	return ex.runFunction(c.Fn, args, c.Env, caller)
}

func (ex *Exec) callFunction(fn *ssa.Function, args []Value, caller *frame) Value {
	return ex.runFunction(fn, args, nil, caller)
}

func (ex *Exec) runFunction(fn *ssa.Function, args []Value, env []Value, caller *frame) Value {
	name := fn.String()
	if h, ok := intercepts[name]; ok {
		ex.models[name] = true
		return h(ex, caller, fn, args)
	}
	if fn.Name() == "init" && fn.Pkg != nil && fn.Signature.Recv() == nil && !ex.isModulePkg(fn.Pkg) && ex.initRunning != fn {
		// initialisers of dependencies are not executed (models own their state), except the few that only
		// create sentinel values (initWanted)
		if ex.initWanted(fn.Pkg) {
			ex.ensureInit(fn.Pkg)
			return nil
		}
		ex.inited[fn.Pkg] = true
		return nil
	}
	if fn.Synthetic != "" && fn.Pkg == nil && len(fn.Blocks) == 0 {
		panic(engineErr("synthetic function without body: %s", name))
	}
	if fn.Pkg != nil && !ex.isModulePkg(fn.Pkg) {
		if h := prefixIntercept(name); h != nil {
			ex.models[name] = true
			return h(ex, caller, fn, args)
		}
	}
	if len(fn.Blocks) == 0 {
		panic(engineErr("external function without model: %s", name))
	}
	if fn.Pkg != nil {
		ex.ensureInit(fn.Pkg)
	}
	ex.depth++
	if ex.depth > ex.cfg.MaxDepth {
		panic(engineErr("call depth budget %d exceeded in %s", ex.cfg.MaxDepth, name))
	}
	defer func() { ex.depth-- }()
	ex.funcs[fn]++
	fr := &frame{ex: ex, fn: fn, caller: caller, env: make(map[ssa.Value]Value, 32)}
	for i, p := range fn.Params {
		if i < len(args) {
			fr.env[p] = args[i]
		} else {
			panic(engineErr("missing argument %d for %s", i, name))
		}
	}
	for i, fv := range fn.FreeVars {
		fr.env[fv] = env[i]
	}
	fr.block = fn.Blocks[0]
	fr.run()
	return fr.result
}

func (fr *frame) run() {
	defer func() {
		r := recover()
		if r == nil {
			return
		}
		gp, ok := r.(goPanic)
		if !ok {
			panic(r) // engine signal: unwinds everything
		}
		// interpreted panic: run deferred calls, maybe recover
		fr.panicking = true
		fr.panicVal = gp
		fr.runDefers()
		if fr.panicking {
			panic(fr.panicVal)
		}
		// recovered: function returns with named results (Recover block)
		if fr.fn.Recover != nil {
			fr.block = fr.fn.Recover
			fr.prev = nil
			fr.runBlocks()
		} else {
			fr.result = zeroResults(fr.fn)
		}
	}()
	fr.runBlocks()
}

func zeroResults(fn *ssa.Function) Value {
	res := fn.Signature.Results()
	switch res.Len() {
	case 0:
		return nil
	case 1:
		return zero(res.At(0).Type())
	}
	return zero(res)
}

func (fr *frame) runBlocks() {
	ex := fr.ex
	for {
		blk := fr.block
		next := false
	instrs:
		for _, instr := range blk.Instrs {
			ex.steps++
			if ex.steps > ex.cfg.MaxSteps {
				panic(engineErr("step budget %d exceeded in %s", ex.cfg.MaxSteps, fr.fn))
			}
			fr.curInstr = instr
			switch fr.visit(instr) {
			case kReturn:
				return
			case kJump:
				next = true
				break instrs
			}
		}
		if !next {
			panic(engineErr("block fell through in %s", fr.fn))
		}
	}
}

type cont int

const (
	kNext cont = iota
	kReturn
	kJump
)

func (fr *frame) runDefers() {
	for len(fr.defers) > 0 {
		d := fr.defers[len(fr.defers)-1]
		fr.defers = fr.defers[:len(fr.defers)-1]
		fr.runDefer(d)
	}
}

func (fr *frame) runDefer(d *deferred) {
	defer func() {
		if r := recover(); r != nil {
			gp, ok := r.(goPanic)
			if !ok {
				panic(r)
			}
			// a deferred call panicked: replaces the current panic
			fr.panicking = true
			fr.panicVal = gp
		}
	}()
	fr.ex.call(d.fn, d.args, d.site, fr)
}

func (ex *Exec) goPanicf(f string, a ...interface{}) {
	msg := fmt.Sprintf(f, a...)
	panic(goPanic{val: Iface{T: runtimeErrorType, V: "runtime error: " + msg}, msg: "runtime error: " + msg})
}

// runtimeErrorType stands for runtime.Error values; modelled as a string-carrying named marker.
var runtimeErrorType types.Type = types.NewNamed(types.NewTypeName(token.NoPos, nil, "runtimeError", nil), types.Typ[types.String], nil)

func (fr *frame) pos() string {
	if fr.curInstr != nil {
		if p := fr.curInstr.Pos(); p.IsValid() {
			return fr.ex.posOf(p)
		}
	}
	return fr.fn.String()
}

// visit executes one instruction.
func (fr *frame) visit(instr ssa.Instruction) cont {
	ex := fr.ex
	switch in := instr.(type) {
	case *ssa.DebugRef:
	case *ssa.UnOp:
		fr.env[in] = ex.unop(in, fr.get(in.X), fr)
	case *ssa.BinOp:
		fr.env[in] = ex.binop(in.Op, in.X.Type(), fr.get(in.X), fr.get(in.Y), fr)
	case *ssa.Call:
		fn, args := fr.prepareCall(&in.Call)
		fr.env[in] = ex.call(fn, args, in, fr)
	case *ssa.ChangeInterface:
		fr.env[in] = fr.get(in.X)
	case *ssa.ChangeType:
		fr.env[in] = fr.get(in.X)
	case *ssa.Convert:
		fr.env[in] = ex.conv(in.Type(), in.X.Type(), fr.get(in.X))
	case *ssa.MakeInterface:
		fr.env[in] = Iface{T: in.X.Type(), V: fr.get(in.X)}
	case *ssa.Extract:
		fr.env[in] = fr.get(in.Tuple).(Tuple)[in.Index]
	case *ssa.Slice:
		fr.env[in] = ex.sliceOp(in, fr)
	case *ssa.Return:
		switch len(in.Results) {
		case 0:
		case 1:
			fr.result = fr.get(in.Results[0])
		default:
			res := make(Tuple, len(in.Results))
			for i, r := range in.Results {
				res[i] = fr.get(r)
			}
			fr.result = res
		}
		return kReturn
	case *ssa.RunDefers:
		fr.runDefers()
		if fr.panicking {
			panic(fr.panicVal)
		}
	case *ssa.Panic:
		v := fr.get(in.X)
		panic(goPanic{val: v, msg: "panic: " + showValue(v)})
	case *ssa.Send:
		ex.chanSend(fr.get(in.Chan), fr.get(in.X), fr)
	case *ssa.Store:
		ex.store(fr.get(in.Addr), fr.get(in.Val), fr)
	case *ssa.If:
		succ := 1
		if ex.branch("if@"+fr.shortPos(in), fr.get(in.Cond)) {
			succ = 0
		}
		fr.prev, fr.block = fr.block, fr.block.Succs[succ]
		return kJump
	case *ssa.Jump:
		fr.prev, fr.block = fr.block, fr.block.Succs[0]
		return kJump
	case *ssa.Defer:
		fn, args := fr.prepareCall(&in.Call)
		fr.defers = append(fr.defers, &deferred{fn: fn, args: args, site: in})
	case *ssa.Go:
		fn, args := fr.prepareCall(&in.Call)
		ex.goStmt(fn, args, in, fr)
	case *ssa.MakeChan:
		fr.env[in] = ex.makeChan(in, fr.get(in.Size))
	case *ssa.Alloc:
		c := &Cell{V: zero(in.Type().(*types.Pointer).Elem())}
		fr.env[in] = c
	case *ssa.MakeSlice:
		n, ok1 := fr.get(in.Len).(int64)
		cp, ok2 := fr.get(in.Cap).(int64)
		if !ok1 || !ok2 {
			panic(engineErr("make slice with symbolic size at %s", fr.pos()))
		}
		if n < 0 || cp < n {
			ex.goPanicf("makeslice: len out of range")
		}
		et := in.Type().Underlying().(*types.Slice).Elem()
		arr := &Array{E: make([]*Cell, cp)}
		for i := range arr.E {
			arr.E[i] = &Cell{V: zero(et)}
		}
		fr.env[in] = Slice{Arr: arr, Len: int(n), Cap: int(cp)}
	case *ssa.MakeMap:
		ex.nextID++
		fr.env[in] = &Map{ID: ex.nextID, T: in.Type().Underlying().(*types.Map)}
	case *ssa.Range:
		fr.env[in] = ex.rangeOp(fr.get(in.X), in, fr)
	case *ssa.Next:
		fr.env[in] = ex.nextOp(fr.get(in.Iter).(*Iter), in, fr)
	case *ssa.FieldAddr:
		p := fr.get(in.X).(*Cell)
		if p == nil {
			ex.goPanicf("invalid memory address or nil pointer dereference")
		}
		fr.env[in] = p.V.(*Struct).F[in.Field]
	case *ssa.Field:
		fr.env[in] = copyVal(fr.get(in.X).(*Struct).F[in.Field].V)
	case *ssa.IndexAddr:
		fr.env[in] = ex.indexAddr(in, fr)
	case *ssa.Index:
		fr.env[in] = ex.indexOp(in, fr)
	case *ssa.Lookup:
		fr.env[in] = ex.lookupOp(in, fr)
	case *ssa.MapUpdate:
		ex.mapUpdate(fr.get(in.Map), fr.get(in.Key), fr.get(in.Value), fr)
	case *ssa.TypeAssert:
		fr.env[in] = ex.typeAssert(in, fr.get(in.X), fr)
	case *ssa.MakeClosure:
		env := make([]Value, len(in.Bindings))
		for i, b := range in.Bindings {
			env[i] = fr.get(b)
		}
		fr.env[in] = &Closure{Fn: in.Fn.(*ssa.Function), Env: env}
	case *ssa.Phi:
		for i, pred := range in.Block().Preds {
			if fr.prev == pred {
				fr.env[in] = fr.get(in.Edges[i])
				break
			}
		}
	case *ssa.Select:
		fr.env[in] = ex.selectOp(in, fr)
	default:
		panic(engineErr("unsupported instruction %T at %s", instr, fr.pos()))
	}
	return kNext
}

func (fr *frame) shortPos(in ssa.Instruction) string {
	p := in.Pos()
	if !p.IsValid() {
		// If has no position of its own: use the condition's
		if i, ok := in.(*ssa.If); ok {
			p = i.Cond.Pos()
		}
	}
	if p.IsValid() {
		pp := fr.ex.prog.Fset.Position(p)
		return fmt.Sprintf("%s:%d", shortFile(pp.Filename), pp.Line)
	}
	return fr.fn.Name()
}

func shortFile(f string) string {
	n := 0
	for i := len(f) - 1; i >= 0; i-- {
		if f[i] == '/' {
			n++
			if n == 2 {
				return f[i+1:]
			}
		}
	}
	return f
}

// prepareCall evaluates the callee and arguments of a call.
func (fr *frame) prepareCall(c *ssa.CallCommon) (Value, []Value) {
	ex := fr.ex
	var args []Value
	var fn Value
	if c.IsInvoke() {
		recv := fr.get(c.Value)
		iv := ex.forceIface(recv)
		if iv.T == nil {
			ex.goPanicf("invalid memory address or nil pointer dereference (method call on nil interface)")
		}
		if op, ok := iv.V.(*Opaque); ok {
			// method on a model object
			name := c.Method.Name()
			fn = &nativeFunc{name: op.Kind + "." + name, f: func(ex *Exec, caller *frame, args []Value) Value {
				return ex.opaqueMethod(op, name, args[1:], caller, c.Method)
			}}
			args = append(args, iv.V)
		} else {
			m := ex.prog.LookupMethod(iv.T, c.Method.Pkg(), c.Method.Name())
			if m == nil {
				panic(engineErr("method %s not found on %s", c.Method.Name(), iv.T))
			}
			fn = m
			args = append(args, iv.V)
		}
	} else {
		fn = fr.get(c.Value)
	}
	for _, a := range c.Args {
		args = append(args, fr.get(a))
	}
	return fn, args
}

// ---- memory ----

func (ex *Exec) load(addr Value, fr *frame) Value {
	c, ok := addr.(*Cell)
	if !ok {
		panic(engineErr("load through %T at %s", addr, fr.pos()))
	}
	if c == nil {
		ex.goPanicf("invalid memory address or nil pointer dereference")
	}
	ex.raceRead(c.acc(), fr)
	if c.Atomic {
		ex.writes = append(ex.writes, writeRec{tag: "atomic-mixed", pos: fr.pos()})
	}
	return copyVal(c.V)
}

func (c *Cell) acc() **access { return &c.Acc }

func (ex *Exec) store(addr Value, v Value, fr *frame) {
	c, ok := addr.(*Cell)
	if !ok {
		panic(engineErr("store through %T at %s", addr, fr.pos()))
	}
	if c == nil {
		ex.goPanicf("invalid memory address or nil pointer dereference")
	}
	if c.Own != nil && !identicalValue(c.V, v) {
		ex.recordWrite(c.Own, fr)
	}
	if c.Atomic {
		ex.writes = append(ex.writes, writeRec{tag: "atomic-mixed", pos: fr.pos()})
	}
	ex.raceWrite(c.acc(), fr)
	storeInto(c, v)
	if c.Own != nil {
		ex.propagateOwner(c.V, c.Own)
	}
}

func (ex *Exec) recordWrite(o *Owner, fr *frame) {
	ex.writes = append(ex.writes, writeRec{tag: o.Tag, pos: fr.pos()})
}

// propagateOwner tags struct/array sub-cells stored into an owned cell (value aggregates only).
func (ex *Exec) propagateOwner(v Value, o *Owner) {
	switch x := v.(type) {
	case *Struct:
		if x != nil {
			for _, c := range x.F {
				c.Own = o
				ex.propagateOwner(c.V, o)
			}
		}
	case *Array:
		if x != nil {
			for _, c := range x.E {
				c.Own = o
				ex.propagateOwner(c.V, o)
			}
		}
	}
}

func (ex *Exec) indexAddr(in *ssa.IndexAddr, fr *frame) Value {
	x := fr.get(in.X)
	idx := fr.get(in.Index)
	i, ok := idx.(int64)
	if !ok {
		panic(engineErr("symbolic index at %s", fr.pos()))
	}
	switch a := x.(type) {
	case Slice:
		if i < 0 || int(i) >= a.Len {
			ex.goPanicf("index out of range [%d] with length %d", i, a.Len)
		}
		ex.materialiseBytes(a.Arr)
		return a.Arr.E[a.Off+int(i)]
	case *Cell: // pointer to array
		if a == nil {
			ex.goPanicf("invalid memory address or nil pointer dereference")
		}
		arr := a.V.(*Array)
		if i < 0 || int(i) >= len(arr.E) {
			ex.goPanicf("index out of range [%d] with length %d", i, len(arr.E))
		}
		return arr.E[i]
	}
	panic(engineErr("IndexAddr on %T", x))
}

func (ex *Exec) materialiseBytes(a *Array) {
	if a == nil || a.StrSrc == nil || a.E != nil {
		return
	}
	if s, ok := a.StrSrc.(string); ok {
		a.E = make([]*Cell, len(s))
		for i := range a.E {
			a.E[i] = &Cell{V: int64(s[i])}
		}
		return
	}
	panic(engineErr("byte access into symbolic string image"))
}

func (ex *Exec) indexOp(in *ssa.Index, fr *frame) Value {
	x := fr.get(in.X)
	idx := fr.get(in.Index)
	switch a := x.(type) {
	case *Array:
		i, ok := idx.(int64)
		if !ok {
			panic(engineErr("symbolic index at %s", fr.pos()))
		}
		if i < 0 || int(i) >= len(a.E) {
			ex.goPanicf("index out of range [%d] with length %d", i, len(a.E))
		}
		return copyVal(a.E[i].V)
	case string, *SymStr:
		return ex.stringIndex(x, idx, fr)
	}
	panic(engineErr("Index on %T", x))
}

func (ex *Exec) stringIndex(s Value, idx Value, fr *frame) Value {
	if cs, ok := s.(string); ok {
		if i, ok := idx.(int64); ok {
			if i < 0 || int(i) >= len(cs) {
				ex.goPanicf("index out of range [%d] with length %d", i, len(cs))
			}
			return int64(cs[i])
		}
	}
	ss := toSym(s)
	if i, ok := idx.(int64); ok {
		if i < 0 || int(i) >= len(ss.Ch) {
			ex.goPanicf("index out of range [%d]", i)
		}
		inb := smt.BVCmp("bvugt", ss.Len, bv8(int(i)))
		if !ex.branch("stridx@"+fr.shortPos(fr.curInstr), simplifyBool(inb)) {
			ex.goPanicf("index out of range [%d] (string)", i)
		}
		return ss.Ch[i]
	}
	it := idx.(*smt.Term)
	inb := smt.BVCmp("bvult", it, smt.BVResize(ss.Len, it.Sort.W, false))
	if !ex.branch("stridx@"+fr.shortPos(fr.curInstr), simplifyBool(inb)) {
		ex.goPanicf("index out of range (string)")
	}
	var t *smt.Term = bv8(0)
	for i := len(ss.Ch) - 1; i >= 0; i-- {
		t = smt.Ite(smt.Same(it, smt.BVConst(uint64(i), it.Sort.W)), ss.Ch[i], t)
	}
	return t
}

func (ex *Exec) sliceOp(in *ssa.Slice, fr *frame) Value {
	x := fr.get(in.X)
	var lo, hi, max Value
	if in.Low != nil {
		lo = fr.get(in.Low)
	}
	if in.High != nil {
		hi = fr.get(in.High)
	}
	if in.Max != nil {
		max = fr.get(in.Max)
	}
	switch a := x.(type) {
	case string, *SymStr:
		return ex.stringSlice(a, lo, hi, fr)
	case Slice:
		l, h, m := ex.sliceBounds(lo, hi, max, a.Len, a.Cap, fr)
		if a.Arr == nil && l == 0 && h == 0 {
			return Slice{}
		}
		return Slice{Arr: a.Arr, Off: a.Off + l, Len: h - l, Cap: m - l}
	case *Cell: // *array
		if a == nil {
			ex.goPanicf("invalid memory address or nil pointer dereference")
		}
		arr := a.V.(*Array)
		l, h, m := ex.sliceBounds(lo, hi, max, len(arr.E), len(arr.E), fr)
		return Slice{Arr: arr, Off: l, Len: h - l, Cap: m - l}
	}
	panic(engineErr("Slice on %T", x))
}

func (ex *Exec) sliceBounds(lo, hi, max Value, ln, cp int, fr *frame) (int, int, int) {
	l, h, m := 0, ln, cp
	conc := func(v Value) int {
		i, ok := v.(int64)
		if !ok {
			panic(engineErr("symbolic slice bound at %s", fr.pos()))
		}
		return int(i)
	}
	if lo != nil {
		l = conc(lo)
	}
	if hi != nil {
		h = conc(hi)
	}
	if max != nil {
		m = conc(max)
	}
	if l < 0 || h < l || m < h || m > cp {
		ex.goPanicf("slice bounds out of range [%d:%d:%d] with capacity %d", l, h, m, cp)
	}
	return l, h, m
}

func (ex *Exec) stringSlice(s Value, lo, hi Value, fr *frame) Value {
	l, h := int64(0), int64(-1)
	if lo != nil {
		v, ok := lo.(int64)
		if !ok {
			panic(engineErr("symbolic string slice bound at %s", fr.pos()))
		}
		l = v
	}
	if hi != nil {
		v, ok := hi.(int64)
		if !ok {
			panic(engineErr("symbolic string slice bound at %s", fr.pos()))
		}
		h = v
	}
	if cs, ok := s.(string); ok {
		if h < 0 {
			h = int64(len(cs))
		}
		if l < 0 || h < l || h > int64(len(cs)) {
			ex.goPanicf("slice bounds out of range [%d:%d] with length %d", l, h, len(cs))
		}
		return cs[l:h]
	}
	ss := toSym(s)
	if l < 0 || (h >= 0 && h < l) {
		ex.goPanicf("slice bounds out of range [%d:%d]", l, h)
	}
	need := l
	if h >= 0 {
		need = h
	}
	if int(need) > len(ss.Ch) {
		ex.goPanicf("slice bounds out of range [%d:%d] (string)", l, h)
	}
	ok := simplifyBool(smt.BVCmp("bvuge", ss.Len, bv8(int(need))))
	if !ex.branch("strslice@"+fr.shortPos(fr.curInstr), ok) {
		ex.goPanicf("slice bounds out of range [%d:%d] (string)", l, h)
	}
	r := ss
	if h >= 0 {
		r = strPrefixTo(r, int(h))
	}
	return strSuffixFrom(r, int(l))
}

// ---- type assertion ----

func (ex *Exec) typeAssert(in *ssa.TypeAssert, x Value, fr *frame) Value {
	var iv Iface
	switch v := x.(type) {
	case Iface:
		iv = v
	case *Lazy:
		return ex.lazyTypeAssert(in, v, fr)
	default:
		panic(engineErr("type assert on %T at %s", x, fr.pos()))
	}
	ok := false
	if iv.T != nil {
		if it, isIface := in.AssertedType.Underlying().(*types.Interface); isIface {
			ok = ex.implements(iv, it)
		} else {
			ok = types.Identical(iv.T, in.AssertedType)
		}
	}
	return ex.assertResult(in, iv, ok, fr)
}

func (ex *Exec) implements(iv Iface, it *types.Interface) bool {
	if iv.T == runtimeErrorType {
		// runtime errors implement error (and runtime.Error)
		return it.NumMethods() == 0 || (it.NumMethods() <= 2 && it.Method(0).Name() == "Error")
	}
	if _, isOpaque := iv.V.(*Opaque); isOpaque {
		return true
	}
	return types.Implements(iv.T, it)
}

func (ex *Exec) assertResult(in *ssa.TypeAssert, iv Iface, ok bool, fr *frame) Value {
	var val Value
	if ok {
		if _, isIface := in.AssertedType.Underlying().(*types.Interface); isIface {
			val = iv
		} else {
			val = iv.V
		}
	} else {
		val = zero(in.AssertedType)
	}
	if in.CommaOk {
		return Tuple{val, ok}
	}
	if !ok {
		ex.goPanicf("interface conversion: interface is %v, not %s", iv.T, in.AssertedType)
	}
	return val
}

// forceIface resolves a lazy interface value completely (forks over its tag domain).
func (ex *Exec) forceIface(v Value) Iface {
	switch x := v.(type) {
	case Iface:
		return x
	case *Lazy:
		return ex.lazyForce(x)
	}
	panic(engineErr("forceIface on %T", v))
}
