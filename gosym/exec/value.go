// Package exec is a forking symbolic interpreter for go/ssa.
package exec

import (
	"fmt"
	"go/types"
	"strings"

	"golang.org/x/tools/go/ssa"

	"sheensverif/gosym/smt"
)

// Value is one of:
//
//	bool, int64 (every integer kind, normalised to its width), float64, string  — concrete scalars
//	*smt.Term                                                                     — symbolic scalar
//	*Cell (pointer; typed nil = nil pointer), *Struct, *Array, Slice, *Map, *Chan
//	Iface, *Lazy (interface values), *Closure, *ssa.Function, *ssa.Builtin, Tuple, *Iter, *Opaque
type Value interface{}

// Owner marks heap objects that belong to a frozen input.
type Owner struct {
	Tag string
}

// Cell is a memory location.
type Cell struct {
	V   Value
	Own *Owner
	// race detection (tier B)
	Acc *access
	// Atomic: the cell has been accessed through sync/atomic; plain accesses are then reported
	Atomic bool
}

type Struct struct {
	F []*Cell
}

type Array struct {
	E   []*Cell
	Own *Owner
	// StrSrc, when set, means this array is the byte image of a (possibly symbolic) string.
	StrSrc Value
	// OrigE: for arrays created as part of a symbolic input, the elements at creation (counterexamples
	// render the input as it was given, not as the program left it)
	OrigE []Value
	// Enc, when set, means this array is the JSON encoding of a value (encoding/json model)
	Enc *encoded
}

type Slice struct {
	Arr           *Array
	Off, Len, Cap int
}

type MapEntry struct {
	K, V    Value
	Deleted bool
	// Touched is set once key or element has been read by the program (pristine-entry symmetry).
	Touched bool
	// Input: the entry was created as part of a symbolic input; OrigV is its value at creation
	Input bool
	OrigV Value
}

type Map struct {
	ID      int
	T       *types.Map
	Entries []*MapEntry
	Own     *Owner
	// lazy input maps: size not yet chosen
	Unsized *lazyMapSpec
	Acc     *access
	Origin  *Lazy
	// InputMap: created as a symbolic input; counterexamples render its ORIGINAL entries
	InputMap bool
}

func (m *Map) live() []*MapEntry {
	var r []*MapEntry
	for _, e := range m.Entries {
		if !e.Deleted {
			r = append(r, e)
		}
	}
	return r
}

type Iface struct {
	T types.Type // nil => nil interface
	V Value
}

type Closure struct {
	Fn  *ssa.Function
	Env []Value
}

type Tuple []Value

// Iter is a map or string range iterator.
type Iter struct {
	M       *Map
	Visited map[*MapEntry]bool
	Order   []*MapEntry // fixed order (insertion mode)
	Pos     int
	Str     Value
	StrPos  int
}

// Opaque is a foreign handle owned by a model (goja runtime, context, timer, ...).
type Opaque struct {
	Kind   string
	Fields map[string]Value
	ID     int
}

func (o *Opaque) String() string { return fmt.Sprintf("<%s#%d>", o.Kind, o.ID) }

// ---- helpers ----

func isSym(v Value) bool {
	switch v.(type) {
	case *smt.Term, *SymStr:
		return true
	}
	return false
}

func isNilPtr(v Value) bool {
	switch x := v.(type) {
	case *Cell:
		return x == nil
	case nil:
		return true
	}
	return false
}

func under(t types.Type) types.Type { return t.Underlying() }

func basicOf(t types.Type) *types.Basic {
	b, _ := t.Underlying().(*types.Basic)
	return b
}

func isInteger(t types.Type) bool {
	b := basicOf(t)
	return b != nil && b.Info()&types.IsInteger != 0
}

func isUnsigned(t types.Type) bool {
	b := basicOf(t)
	return b != nil && b.Info()&types.IsUnsigned != 0
}

func isFloat(t types.Type) bool {
	b := basicOf(t)
	return b != nil && b.Info()&types.IsFloat != 0
}

func isString(t types.Type) bool {
	b := basicOf(t)
	return b != nil && b.Info()&types.IsString != 0
}

func isBoolean(t types.Type) bool {
	b := basicOf(t)
	return b != nil && b.Info()&types.IsBoolean != 0
}

func intWidth(t types.Type) int {
	b := basicOf(t)
	if b == nil {
		return 64
	}
	switch b.Kind() {
	case types.Int8, types.Uint8:
		return 8
	case types.Int16, types.Uint16:
		return 16
	case types.Int32, types.Uint32:
		return 32
	}
	return 64
}

// normInt wraps v to the width and signedness of t.
func normInt(v int64, t types.Type) int64 {
	w := intWidth(t)
	if w == 64 {
		return v
	}
	if isUnsigned(t) {
		return int64(uint64(v) & (uint64(1)<<uint(w) - 1))
	}
	shift := uint(64 - w)
	return (v << shift) >> shift
}

func sortOf(t types.Type) (smt.Sort, bool) {
	b := basicOf(t)
	if b == nil {
		return smt.Sort{}, false
	}
	switch {
	case b.Info()&types.IsBoolean != 0:
		return smt.Bool, true
	case b.Info()&types.IsInteger != 0:
		return smt.BV(intWidth(t)), true
	case b.Info()&types.IsFloat != 0:
		return smt.FP64, true
	case b.Info()&types.IsString != 0:
		return smt.Str, true
	}
	return smt.Sort{}, false
}

// toTerm lifts a concrete scalar of static type t to a term.
func toTerm(v Value, t types.Type) *smt.Term {
	switch x := v.(type) {
	case *smt.Term:
		return x
	case bool:
		return smt.BoolConst(x)
	case int64:
		return smt.BVConst(uint64(x), intWidth(t))
	case float64:
		return smt.FPConst(x)
	}
	panic(engineErr("toTerm: unsupported value %T", v))
}

// toTermAuto lifts a concrete scalar without static type (ints as 64 bit).
func toTermAuto(v Value) *smt.Term {
	switch x := v.(type) {
	case *smt.Term:
		return x
	case bool:
		return smt.BoolConst(x)
	case int64:
		return smt.BVConst(uint64(x), 64)
	case float64:
		return smt.FPConst(x)
	}
	panic(engineErr("toTermAuto: unsupported value %T", v))
}

// zero returns the zero value of type t.
func zero(t types.Type) Value {
	switch t := t.(type) {
	case *types.Basic:
		switch {
		case t.Kind() == types.UntypedNil:
			return Iface{}
		case t.Kind() == types.Invalid:
			return nil
		case t.Info()&types.IsBoolean != 0:
			return false
		case t.Info()&types.IsInteger != 0:
			return int64(0)
		case t.Info()&types.IsFloat != 0:
			return float64(0)
		case t.Info()&types.IsString != 0:
			return ""
		case t.Kind() == types.UnsafePointer:
			return (*Cell)(nil)
		}
		panic(engineErr("zero: unsupported basic type %s", t))
	case *types.Pointer:
		return (*Cell)(nil)
	case *types.Struct:
		s := &Struct{F: make([]*Cell, t.NumFields())}
		for i := range s.F {
			s.F[i] = &Cell{V: zero(t.Field(i).Type())}
		}
		return s
	case *types.Array:
		a := &Array{E: make([]*Cell, t.Len())}
		for i := range a.E {
			a.E[i] = &Cell{V: zero(t.Elem())}
		}
		return a
	case *types.Slice:
		return Slice{}
	case *types.Map:
		return (*Map)(nil)
	case *types.Chan:
		return (*Chan)(nil)
	case *types.Interface:
		return Iface{}
	case *types.Signature:
		return (*Closure)(nil)
	case *types.Named:
		return zero(t.Underlying())
	case *types.Alias:
		return zero(types.Unalias(t))
	case *types.Tuple:
		tp := make(Tuple, t.Len())
		for i := range tp {
			tp[i] = zero(t.At(i).Type())
		}
		return tp
	case *types.TypeParam:
		panic(engineErr("zero: type parameter %s", t))
	}
	panic(engineErr("zero: unsupported type %T %s", t, t))
}

// copyVal copies value-typed aggregates (structs, arrays); everything else is shared.
func copyVal(v Value) Value {
	switch x := v.(type) {
	case *Struct:
		if x == nil {
			return x
		}
		n := &Struct{F: make([]*Cell, len(x.F))}
		for i, c := range x.F {
			n.F[i] = &Cell{V: copyVal(c.V)}
		}
		return n
	case *Array:
		if x == nil {
			return x
		}
		n := &Array{E: make([]*Cell, len(x.E)), StrSrc: x.StrSrc}
		for i, c := range x.E {
			n.E[i] = &Cell{V: copyVal(c.V)}
		}
		return n
	case Tuple:
		n := make(Tuple, len(x))
		for i, c := range x {
			n[i] = copyVal(c)
		}
		return n
	}
	return v
}

// storeInto overwrites the aggregate in cell c in place (keeping sub-cell identity so interior pointers stay valid).
func storeInto(c *Cell, v Value) {
	switch x := v.(type) {
	case *Struct:
		if cur, ok := c.V.(*Struct); ok && cur != nil && x != nil && len(cur.F) == len(x.F) {
			for i := range x.F {
				storeInto(cur.F[i], x.F[i].V)
			}
			return
		}
		c.V = copyVal(v)
	case *Array:
		if cur, ok := c.V.(*Array); ok && cur != nil && x != nil && len(cur.E) == len(x.E) {
			for i := range x.E {
				storeInto(cur.E[i], x.E[i].V)
			}
			return
		}
		c.V = copyVal(v)
	default:
		c.V = v
	}
}

func showValue(v Value) string {
	switch x := v.(type) {
	case nil:
		return "nil"
	case *smt.Term:
		return x.S
	case *SymStr:
		return x.String()
	case string:
		return fmt.Sprintf("%q", x)
	case Iface:
		if x.T == nil {
			return "nil"
		}
		return fmt.Sprintf("%s(%s)", x.T, showValue(x.V))
	case *Map:
		if x == nil {
			return "map(nil)"
		}
		var parts []string
		for _, e := range x.live() {
			parts = append(parts, showValue(e.K)+":"+showValue(e.V))
		}
		return "map{" + strings.Join(parts, ",") + "}"
	case Slice:
		var parts []string
		for i := 0; i < x.Len; i++ {
			parts = append(parts, showValue(x.Arr.E[x.Off+i].V))
		}
		return "[" + strings.Join(parts, ",") + "]"
	case *Lazy:
		if x.Res != nil {
			return showValue(*x.Res)
		}
		return fmt.Sprintf("lazy(%s)", x.Name)
	case *Struct:
		if x == nil {
			return "struct(nil)"
		}
		var parts []string
		for _, c := range x.F {
			parts = append(parts, showValue(c.V))
		}
		return "{" + strings.Join(parts, ",") + "}"
	case *Cell:
		if x == nil {
			return "nilptr"
		}
		return "&" + showValue(x.V)
	}
	return fmt.Sprintf("%v", v)
}
