package exec

import (
	"fmt"
	"go/types"
	"strconv"

	"sheensverif/gosym/smt"
)

// TJ is the typed-JSON encoding used in counterexample files (see harness/verif/native.go).
type TJ struct {
	T string      `json:"t"`
	V interface{} `json:"v,omitempty"`
}

type CexInput struct {
	Kind string `json:"kind"`
	Name string `json:"name"`
	Val  *TJ    `json:"val,omitempty"`
	Int  int64  `json:"int,omitempty"`
	N    int    `json:"n,omitempty"`
}

type Cex struct {
	Property string      `json:"property,omitempty"`
	Harness  string      `json:"harness,omitempty"`
	Pkg      string      `json:"pkg,omitempty"`
	Label    string      `json:"label"`
	Kind     string      `json:"kind"`
	Detail   string      `json:"detail,omitempty"`
	Tier     int         `json:"tier"`
	Known    []string    `json:"known,omitempty"`
	Inputs   []*CexInput `json:"inputs"`
	Trail    string      `json:"trail,omitempty"`
	Repeat   int         `json:"repeat,omitempty"`
}

func (ex *Exec) buildCex(model map[string]string) *Cex {
	c := &Cex{Tier: ex.cfg.Tier, Trail: ex.trailString()}
	for k, on := range ex.cfg.Known {
		if on {
			c.Known = append(c.Known, k)
		}
	}
	cz := &concretizer{ex: ex, model: model}
	for _, in := range ex.inputs {
		ci := &CexInput{Kind: in.Kind, Name: in.Name, N: in.N}
		switch in.Kind {
		case "choose":
			ci.Int = in.Val.(int64)
		default:
			ci.Val = cz.tj(in.Val)
		}
		c.Inputs = append(c.Inputs, ci)
	}
	return c
}

type concretizer struct {
	ex    *Exec
	model map[string]string
}

func (c *concretizer) sym(t *smt.Term) (string, bool) {
	v, ok := c.model[t.S]
	return v, ok
}

func fstr(f float64) string { return strconv.FormatFloat(f, 'g', -1, 64) }

func (c *concretizer) tj(v Value) *TJ {
	switch x := v.(type) {
	case nil:
		return &TJ{T: "nil"}
	case bool:
		return &TJ{T: "bool", V: x}
	case int64:
		return &TJ{T: "i64", V: strconv.FormatInt(x, 10)}
	case float64:
		return &TJ{T: "f64", V: fstr(x)}
	case string:
		return &TJ{T: "str", V: x}
	case *SymStr:
		n := 0
		if cl, ok := constLen(x); ok {
			n = cl
		} else if mv, ok := c.sym(x.Len); ok {
			u, _ := smt.DecodeBV(mv)
			n = int(u)
		}
		b := make([]byte, 0, n)
		for i := 0; i < n && i < len(x.Ch); i++ {
			ch := x.Ch[i]
			if mv, ok := c.sym(ch); ok {
				u, _ := smt.DecodeBV(mv)
				b = append(b, byte(u))
			} else if len(ch.S) == 4 && ch.S[:2] == "#x" {
				u, _ := smt.DecodeBV(ch.S)
				b = append(b, byte(u))
			} else {
				b = append(b, '?')
			}
		}
		return &TJ{T: "str", V: string(b)}
	case *smt.Term:
		mv, ok := c.sym(x)
		if !ok {
			// not a plain symbol: cannot evaluate; use a default of the sort
			switch x.Sort.K {
			case smt.KBool:
				return &TJ{T: "bool", V: false}
			case smt.KStr:
				return &TJ{T: "str", V: ""}
			case smt.KFP:
				return &TJ{T: "f64", V: "0"}
			default:
				return &TJ{T: "i64", V: "0"}
			}
		}
		switch x.Sort.K {
		case smt.KBool:
			b, _ := smt.DecodeBool(mv)
			return &TJ{T: "bool", V: b}
		case smt.KStr:
			s, err := smt.DecodeStr(mv)
			if err != nil {
				panic(engineErr("model string: %v", err))
			}
			return &TJ{T: "str", V: s}
		case smt.KFP:
			f, err := smt.DecodeFP(mv)
			if err != nil {
				panic(engineErr("model float: %v", err))
			}
			return &TJ{T: "f64", V: fstr(f)}
		case smt.KBV:
			u, err := smt.DecodeBV(mv)
			if err != nil {
				panic(engineErr("model bv: %v", err))
			}
			w := x.Sort.W
			iv := int64(u)
			if w < 64 {
				shift := uint(64 - w)
				iv = (iv << shift) >> shift
			}
			return &TJ{T: "i64", V: strconv.FormatInt(iv, 10)}
		}
	case Iface:
		if x.T == nil {
			return &TJ{T: "nil"}
		}
		t := c.tj(x.V)
		switch tagOfType(x.T) {
		case TInt:
			t.T = "int"
		case TAlien:
			return &TJ{T: "alien"}
		}
		if b, ok := x.T.Underlying().(*types.Basic); ok && b.Kind() == types.Int && t.T == "i64" {
			t.T = "int"
		}
		return t
	case *Lazy:
		if x.Res != nil {
			return c.tj(*x.Res)
		}
		// unresolved: smallest member of the domain
		for _, t := range tags(x.Dom) {
			switch t {
			case TNil:
				return &TJ{T: "nil"}
			case TBool:
				return &TJ{T: "bool", V: false}
			case TF64:
				return &TJ{T: "f64", V: "0"}
			case TStr:
				return &TJ{T: "str", V: ""}
			case TMap:
				return &TJ{T: "map", V: []interface{}{}}
			case TArr:
				return &TJ{T: "arr", V: []interface{}{}}
			case TI64:
				return &TJ{T: "i64", V: "0"}
			case TInt:
				return &TJ{T: "int", V: "0"}
			case TAlien:
				return &TJ{T: "alien"}
			}
		}
		return &TJ{T: "nil"}
	case *Map:
		if x == nil {
			return &TJ{T: "nilmap"}
		}
		pairs := []interface{}{}
		if x.Unsized != nil {
			for i := 0; i < x.Unsized.min; i++ {
				pairs = append(pairs, []interface{}{fmt.Sprintf("k%d", i), &TJ{T: "nil"}})
			}
			return &TJ{T: "map", V: pairs}
		}
		if x.InputMap {
			// the input as it was given: entries the program added are left out, overwritten or deleted
			// input entries are rendered with their original value
			for _, e := range x.Entries {
				if e.Input {
					k := c.tj(e.K)
					pairs = append(pairs, []interface{}{k.V, c.tj(e.OrigV)})
				}
			}
			return &TJ{T: "map", V: pairs}
		}
		for _, e := range x.live() {
			k := c.tj(e.K)
			pairs = append(pairs, []interface{}{k.V, c.tj(e.V)})
		}
		return &TJ{T: "map", V: pairs}
	case Slice:
		if x.Arr == nil {
			return &TJ{T: "arr", V: []interface{}{}}
		}
		elems := []interface{}{}
		if x.Arr.OrigE != nil && x.Off == 0 && x.Len == len(x.Arr.OrigE) {
			for _, v := range x.Arr.OrigE {
				elems = append(elems, c.tj(v))
			}
			return &TJ{T: "arr", V: elems}
		}
		for i := 0; i < x.Len; i++ {
			elems = append(elems, c.tj(x.Arr.E[x.Off+i].V))
		}
		return &TJ{T: "arr", V: elems}
	}
	panic(engineErr("cannot concretise %T", v))
}
