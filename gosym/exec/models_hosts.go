package exec

import (
	"golang.org/x/tools/go/ssa"
)

// Host-level environment stubs: functions of the code base whose job is file or network I/O.
//
//	(*mcrew.Service).GetSpec(ctx, src): reads <specDir>/<name>.yaml, decodes YAML, compiles.  Model: the
//	    harness keeps the same specs as Go values in its package variable verifSpecs (name -> *core.Spec,
//	    compiled on first use); an unknown name is "file not found".  Natively the harness writes the very
//	    same specs as spec files and the real GetSpec reads them.

func init() {
	intercepts["(*github.com/Comcast/sheens/cmd/mcrew.Service).GetSpec"] = func(ex *Exec, c *frame, fn *ssa.Function, a []Value) Value {
		src, _ := a[2].(*Cell)
		if src == nil {
			ex.goPanicf("invalid memory address or nil pointer dereference (nil *crew.SpecSource)")
		}
		name := src.V.(*Struct).F[0].V // SpecSource.Name
		g := fn.Pkg.Var("verifSpecs")
		if g == nil {
			panic(engineErr("GetSpec model: the harness does not declare verifSpecs"))
		}
		m, _ := ex.global(g).V.(*Map)
		if m != nil {
			if e := ex.findEntry(m, name, c, "getspec"); e != nil {
				spec := e.V.(*Cell)
				specT := fn.Prog.ImportedPackage("github.com/Comcast/sheens/core").Type("Spec").Type()
				return Tuple{Iface{T: ptrTo(specT), V: spec}, Iface{}}
			}
		}
		return Tuple{Iface{}, ex.newError("open spec file: no such file or directory")}
	}
}
