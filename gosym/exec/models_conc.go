package exec

import (
	"go/token"
	"go/types"

	"golang.org/x/tools/go/ssa"
)

// Models of context, time and sync (documented contracts only).

type lockState struct {
	held    bool
	readers int
	vc      vclock
}

func (ex *Exec) lockOf(c *Cell) *lockState {
	if ex.locks == nil {
		ex.locks = map[*Cell]*lockState{}
	}
	l := ex.locks[c]
	if l == nil {
		l = &lockState{}
		ex.locks[c] = l
	}
	return l
}

func ptrArg(ex *Exec, v Value) *Cell {
	c, _ := v.(*Cell)
	if c == nil {
		ex.goPanicf("invalid memory address or nil pointer dereference")
	}
	return c
}

func (ex *Exec) namedType(pkg, name string) types.Type {
	p := ex.prog.ImportedPackage(pkg)
	if p == nil {
		panic(engineErr("package %s not loaded", pkg))
	}
	t := p.Type(name)
	if t == nil {
		panic(engineErr("type %s.%s not found", pkg, name))
	}
	return t.Type()
}

// mkTime builds a time.Time value holding ns (monotonic nanoseconds of the model clock) in its ext field.
func (ex *Exec) mkTime(ns Value) Value {
	t := ex.namedType("time", "Time")
	v := zero(t).(*Struct)
	v.F[1].V = ns // ext: int64 nanoseconds of the model clock, concrete or a 64-bit term
	return v
}

// timeNSV: the nanoseconds of a time value (an int64 or a symbolic 64-bit term).
func timeNSV(v Value) Value {
	st, ok := v.(*Struct)
	if !ok || len(st.F) < 2 {
		panic(engineErr("time value expected, got %T", v))
	}
	return st.F[1].V
}

// timeNS: the nanoseconds of a time value that must be concrete here.
func timeNS(v Value) int64 {
	ns, ok := timeNSV(v).(int64)
	if !ok {
		panic(engineErr("symbolic time value where a concrete one is needed"))
	}
	return ns
}

var tInt64 = types.Typ[types.Int64]

// i64: 64-bit integer arithmetic / comparison on concrete or symbolic operands.
func (ex *Exec) i64(op token.Token, x, y Value) Value { return ex.binop(op, tInt64, x, y, nil) }

func (ex *Exec) newCtx(parent *Opaque, envCancellable bool) *Opaque {
	c := ex.newOpaque("context")
	c.Fields["done"] = false
	c.Fields["envCancellable"] = envCancellable
	if parent != nil {
		c.Fields["parent"] = parent
		kids, _ := parent.Fields["children"].([]*Opaque)
		parent.Fields["children"] = append(kids, c)
		if d, _ := parent.Fields["done"].(bool); d {
			c.Fields["done"] = true
			c.Fields["err"] = parent.Fields["err"]
		}
	}
	s := ex.scheduler()
	s.ctxs = append(s.ctxs, c)
	return c
}

func (ex *Exec) cancelCtx(c *Opaque, why string) {
	if d, _ := c.Fields["done"].(bool); d {
		return
	}
	c.Fields["done"] = true
	c.Fields["err"] = why
	// cancellation happens before whatever observes Done() closed (no edge when the environment ends it)
	if why == "context canceled" && ex.sched != nil {
		var v vclock
		if old, ok := c.Fields["cancelVC"].(vclock); ok {
			v = old
		}
		ex.release(&v)
		c.Fields["cancelVC"] = v
	}
	if ch, ok := c.Fields["doneCh"].(*Chan); ok && !ch.closed {
		ch.closed = true
		if v, ok := c.Fields["cancelVC"].(vclock); ok {
			if ch.vc == nil {
				ch.vc = vclock{}
			}
			ch.vc.join(v)
		}
	}
	kids, _ := c.Fields["children"].([]*Opaque)
	for _, k := range kids {
		ex.cancelCtx(k, why)
	}
}

func ctxOf(ex *Exec, v Value) *Opaque {
	iv := ex.forceIface(v)
	if iv.T == nil {
		return nil
	}
	o, _ := iv.V.(*Opaque)
	return o
}

func init() {
	// ---- context ----
	withCancel := func(envCancellable bool) handler {
		return func(ex *Exec, c *frame, fn *ssa.Function, a []Value) Value {
			parent := ctxOf(ex, a[0])
			child := ex.newCtx(parent, envCancellable)
			cancel := &nativeFunc{name: "cancel", f: func(ex *Exec, caller *frame, args []Value) Value {
				ex.cancelCtx(child, "context canceled")
				return nil
			}}
			return Tuple{opaqueIface(child), cancel}
		}
	}
	stdModels["context.WithCancel"] = withCancel(false)
	// a deadline may pass at any scheduling point
	stdModels["context.WithTimeout"] = func(ex *Exec, c *frame, fn *ssa.Function, a []Value) Value {
		res := withCancel(true)(ex, c, fn, a).(Tuple)
		res[0].(Iface).V.(*Opaque).Fields["deadline"] = ex.i64(token.ADD, ex.scheduler().now, a[1])
		return res
	}
	stdModels["context.WithDeadline"] = func(ex *Exec, c *frame, fn *ssa.Function, a []Value) Value {
		res := withCancel(true)(ex, c, fn, a).(Tuple)
		res[0].(Iface).V.(*Opaque).Fields["deadline"] = timeNSV(a[1])
		return res
	}
	stdModels["time.Until"] = func(ex *Exec, c *frame, fn *ssa.Function, a []Value) Value {
		return ex.i64(token.SUB, timeNSV(a[0]), ex.scheduler().now)
	}
	stdModels["context.WithValue"] = func(ex *Exec, c *frame, fn *ssa.Function, a []Value) Value {
		return a[0]
	}
	opaqueMethods["context.Done"] = func(ex *Exec, caller *frame, op *Opaque, args []Value) Value {
		ch, ok := op.Fields["doneCh"].(*Chan)
		if !ok {
			ch = ex.newChan(0, types.NewStruct(nil, nil))
			if d, _ := op.Fields["done"].(bool); d {
				ch.closed = true
				if v, ok := op.Fields["cancelVC"].(vclock); ok {
					ch.vc = v.clone()
				}
			}
			op.Fields["doneCh"] = ch
		}
		return ch
	}
	opaqueMethods["context.Err"] = func(ex *Exec, caller *frame, op *Opaque, args []Value) Value {
		if d, _ := op.Fields["done"].(bool); d {
			msg, _ := op.Fields["err"].(string)
			return ex.newError(msg)
		}
		return Iface{}
	}
	opaqueMethods["context.Value"] = func(ex *Exec, caller *frame, op *Opaque, args []Value) Value { return Iface{} }
	opaqueMethods["context.Deadline"] = func(ex *Exec, caller *frame, op *Opaque, args []Value) Value {
		// the nearest deadline up the chain of contexts
		for o := op; o != nil; {
			if d, has := o.Fields["deadline"]; has && d != nil {
				return Tuple{ex.mkTime(d), true}
			}
			p, _ := o.Fields["parent"].(*Opaque)
			o = p
		}
		return Tuple{ex.mkTime(int64(0)), false}
	}

	// ---- time ----
	stdModels["time.Now"] = func(ex *Exec, c *frame, fn *ssa.Function, a []Value) Value {
		return ex.mkTime(ex.scheduler().now)
	}
	stdModels["(time.Time).UTC"] = func(ex *Exec, c *frame, fn *ssa.Function, a []Value) Value { return a[0] }
	stdModels["(time.Time).Local"] = stdModels["(time.Time).UTC"]
	stdModels["(time.Time).Add"] = func(ex *Exec, c *frame, fn *ssa.Function, a []Value) Value {
		return ex.mkTime(ex.i64(token.ADD, timeNSV(a[0]), a[1]))
	}
	stdModels["(time.Time).Sub"] = func(ex *Exec, c *frame, fn *ssa.Function, a []Value) Value {
		return ex.i64(token.SUB, timeNSV(a[0]), timeNSV(a[1]))
	}
	stdModels["(time.Time).Before"] = func(ex *Exec, c *frame, fn *ssa.Function, a []Value) Value {
		return ex.i64(token.LSS, timeNSV(a[0]), timeNSV(a[1]))
	}
	stdModels["(time.Time).After"] = func(ex *Exec, c *frame, fn *ssa.Function, a []Value) Value {
		return ex.i64(token.GTR, timeNSV(a[0]), timeNSV(a[1]))
	}
	stdModels["(time.Time).Equal"] = func(ex *Exec, c *frame, fn *ssa.Function, a []Value) Value {
		return ex.i64(token.EQL, timeNSV(a[0]), timeNSV(a[1]))
	}
	stdModels["(time.Time).IsZero"] = func(ex *Exec, c *frame, fn *ssa.Function, a []Value) Value {
		return ex.i64(token.EQL, timeNSV(a[0]), int64(0))
	}
	stdModels["(time.Time).UnixNano"] = func(ex *Exec, c *frame, fn *ssa.Function, a []Value) Value { return timeNSV(a[0]) }
	stdModels["(time.Time).Unix"] = func(ex *Exec, c *frame, fn *ssa.Function, a []Value) Value {
		return timeNS(a[0]) / 1_000_000_000
	}
	stdModels["(time.Time).Format"] = func(ex *Exec, c *frame, fn *ssa.Function, a []Value) Value {
		if ns, concrete := timeNSV(a[0]).(int64); concrete {
			return "T" + itoa(ns)
		}
		return "T?"
	}
	stdModels["time.Since"] = func(ex *Exec, c *frame, fn *ssa.Function, a []Value) Value {
		return ex.i64(token.SUB, ex.scheduler().now, timeNSV(a[0]))
	}
	stdModels["time.Sleep"] = func(ex *Exec, c *frame, fn *ssa.Function, a []Value) Value {
		s := ex.scheduler()
		t := &timerObj{id: len(s.timers), due: ex.i64(token.ADD, s.now, a[0])}
		s.timers = append(s.timers, t)
		s.block(func() bool { return t.fired }, "sleep")
		return nil
	}
	newTimer := func(ex *Exec, d Value, fn Value) Value {
		s := ex.scheduler()
		tt := ex.namedType("time", "Timer")
		st := zero(tt).(*Struct)
		t := &timerObj{id: len(s.timers), due: ex.i64(token.ADD, s.now, d), fn: fn, vc: s.cur.vc.clone()}
		s.cur.vc[s.cur.id]++
		if fn == nil {
			t.ch = ex.newChan(1, ex.namedType("time", "Time"))
			t.ch.timer = t
			st.F[0].V = t.ch // C
		}
		s.timers = append(s.timers, t)
		cell := &Cell{V: st}
		if ex.timerObjs == nil {
			ex.timerObjs = map[*Cell]*timerObj{}
		}
		ex.timerObjs[cell] = t
		return cell
	}
	stdModels["time.NewTimer"] = func(ex *Exec, c *frame, fn *ssa.Function, a []Value) Value {
		return newTimer(ex, a[0], nil)
	}
	stdModels["time.AfterFunc"] = func(ex *Exec, c *frame, fn *ssa.Function, a []Value) Value {
		return newTimer(ex, a[0], a[1])
	}
	stdModels["time.After"] = func(ex *Exec, c *frame, fn *ssa.Function, a []Value) Value {
		cell := newTimer(ex, a[0], nil).(*Cell)
		return cell.V.(*Struct).F[0].V
	}
	stdModels["(*time.Timer).Stop"] = func(ex *Exec, c *frame, fn *ssa.Function, a []Value) Value {
		cell := ptrArg(ex, a[0])
		t := ex.timerObjs[cell]
		if t == nil {
			return false
		}
		was := !t.fired && !t.stopped
		t.stopped = true
		return was
	}
	stdModels["time.ParseDuration"] = func(ex *Exec, c *frame, fn *ssa.Function, a []Value) Value {
		s, ok := a[0].(string)
		if !ok {
			panic(engineErr("ParseDuration of a symbolic string"))
		}
		d, err := parseDuration(s)
		if err != nil {
			return Tuple{int64(0), ex.newError("time: invalid duration")}
		}
		return Tuple{d, Iface{}}
	}

	// ---- sync/atomic on pointers: one indivisible load/store of the cell ----
	stdModels["sync/atomic.StorePointer"] = func(ex *Exec, c *frame, fn *ssa.Function, a []Value) Value {
		cell := ptrArg(ex, a[0])
		if cell.Own != nil {
			ex.recordWrite(cell.Own, c)
		}
		cell.Atomic = true
		cell.V = a[1]
		ex.atomicOps++
		ex.release(&ex.lockOf(cell).vc)
		return nil
	}
	stdModels["sync/atomic.LoadPointer"] = func(ex *Exec, c *frame, fn *ssa.Function, a []Value) Value {
		cell := ptrArg(ex, a[0])
		cell.Atomic = true
		ex.atomicOps++
		ex.acquire(ex.lockOf(cell).vc)
		return cell.V
	}

	// ---- sync/atomic.Value: one indivisible load/store of an interface value ----
	atomicValueCell := func(ex *Exec, v Value) *Cell {
		c := ptrArg(ex, v)
		st, ok := c.V.(*Struct)
		if !ok || len(st.F) == 0 {
			panic(engineErr("atomic.Value: unexpected representation %T", c.V))
		}
		return st.F[0]
	}
	stdModels["(*sync/atomic.Value).Load"] = func(ex *Exec, c *frame, fn *ssa.Function, a []Value) Value {
		cell := atomicValueCell(ex, a[0])
		ex.atomicOps++
		ex.acquire(ex.lockOf(cell).vc)
		if cell.V == nil {
			return Iface{}
		}
		return cell.V
	}
	stdModels["(*sync/atomic.Value).Store"] = func(ex *Exec, c *frame, fn *ssa.Function, a []Value) Value {
		cell := atomicValueCell(ex, a[0])
		iv := ex.forceIface(a[1])
		if iv.T == nil {
			ex.goPanicf("sync/atomic: store of nil value into Value")
		}
		if cell.Own != nil {
			ex.recordWrite(cell.Own, c)
		}
		cell.V = iv
		ex.atomicOps++
		ex.release(&ex.lockOf(cell).vc)
		return nil
	}
	stdModels["(*sync/atomic.Value).Swap"] = func(ex *Exec, c *frame, fn *ssa.Function, a []Value) Value {
		cell := atomicValueCell(ex, a[0])
		iv := ex.forceIface(a[1])
		if iv.T == nil {
			ex.goPanicf("sync/atomic: swap of nil value into Value")
		}
		if cell.Own != nil {
			ex.recordWrite(cell.Own, c)
		}
		old := cell.V
		cell.V = iv
		ex.atomicOps++
		ex.acquire(ex.lockOf(cell).vc)
		ex.release(&ex.lockOf(cell).vc)
		if old == nil {
			return Iface{}
		}
		return old
	}

	// ---- sync ----
	stdModels["(*sync.Mutex).Lock"] = func(ex *Exec, c *frame, fn *ssa.Function, a []Value) Value {
		l := ex.lockOf(ptrArg(ex, a[0]))
		if ex.preemptAtLocks {
			ex.scheduler().yield("before-lock@" + c.shortPosSafe())
		}
		if l.held {
			ex.scheduler().block(func() bool { return !l.held }, "lock@"+c.shortPosSafe())
		}
		l.held = true
		ex.acquire(l.vc)
		return nil
	}
	stdModels["(*sync.Mutex).Unlock"] = func(ex *Exec, c *frame, fn *ssa.Function, a []Value) Value {
		l := ex.lockOf(ptrArg(ex, a[0]))
		if !l.held {
			ex.goPanicf("sync: unlock of unlocked mutex")
		}
		l.held = false
		ex.release(&l.vc)
		return nil
	}
	stdModels["(*sync.Mutex).TryLock"] = func(ex *Exec, c *frame, fn *ssa.Function, a []Value) Value {
		l := ex.lockOf(ptrArg(ex, a[0]))
		if l.held {
			return false
		}
		l.held = true
		ex.acquire(l.vc)
		return true
	}
	stdModels["(*sync.RWMutex).Lock"] = func(ex *Exec, c *frame, fn *ssa.Function, a []Value) Value {
		l := ex.lockOf(ptrArg(ex, a[0]))
		if ex.preemptAtLocks {
			ex.scheduler().yield("before-lock@" + c.shortPosSafe())
		}
		if l.held || l.readers > 0 {
			ex.scheduler().block(func() bool { return !l.held && l.readers == 0 }, "lock@"+c.shortPosSafe())
		}
		l.held = true
		ex.acquire(l.vc)
		return nil
	}
	stdModels["(*sync.RWMutex).Unlock"] = stdModels["(*sync.Mutex).Unlock"]
	stdModels["(*sync.RWMutex).RLock"] = func(ex *Exec, c *frame, fn *ssa.Function, a []Value) Value {
		l := ex.lockOf(ptrArg(ex, a[0]))
		if ex.preemptAtLocks {
			ex.scheduler().yield("before-rlock@" + c.shortPosSafe())
		}
		if l.held {
			ex.scheduler().block(func() bool { return !l.held }, "rlock@"+c.shortPosSafe())
		}
		l.readers++
		ex.acquire(l.vc)
		return nil
	}
	stdModels["(*sync.RWMutex).RUnlock"] = func(ex *Exec, c *frame, fn *ssa.Function, a []Value) Value {
		l := ex.lockOf(ptrArg(ex, a[0]))
		if l.readers <= 0 {
			ex.goPanicf("sync: RUnlock of unlocked RWMutex")
		}
		l.readers--
		ex.release(&l.vc)
		return nil
	}
	stdModels["(*sync.WaitGroup).Add"] = func(ex *Exec, c *frame, fn *ssa.Function, a []Value) Value {
		l := ex.lockOf(ptrArg(ex, a[0]))
		n, _ := a[1].(int64)
		l.readers += int(n)
		if l.readers < 0 {
			ex.goPanicf("sync: negative WaitGroup counter")
		}
		return nil
	}
	stdModels["(*sync.WaitGroup).Done"] = func(ex *Exec, c *frame, fn *ssa.Function, a []Value) Value {
		l := ex.lockOf(ptrArg(ex, a[0]))
		ex.release(&l.vc)
		l.readers--
		if l.readers < 0 {
			ex.goPanicf("sync: negative WaitGroup counter")
		}
		return nil
	}
	stdModels["(*sync.WaitGroup).Wait"] = func(ex *Exec, c *frame, fn *ssa.Function, a []Value) Value {
		l := ex.lockOf(ptrArg(ex, a[0]))
		if l.readers > 0 {
			ex.scheduler().block(func() bool { return l.readers == 0 }, "wg-wait")
		}
		ex.acquire(l.vc)
		return nil
	}
}

func itoa(n int64) string {
	if n == 0 {
		return "0"
	}
	neg := n < 0
	if neg {
		n = -n
	}
	var b []byte
	for n > 0 {
		b = append([]byte{byte('0' + n%10)}, b...)
		n /= 10
	}
	if neg {
		b = append([]byte{'-'}, b...)
	}
	return string(b)
}
