package exec

import (
	"encoding/json"
	"fmt"
	"go/types"
	"sort"
	"strings"

	"golang.org/x/tools/go/ssa"

	"sheensverif/gosym/smt"
)

// The encoding/json model (documented contract of Marshal/Unmarshal for interface{} data):
//
//	Marshal(v): nil, bool, numbers, strings, map[string]T, []T (also through pointers and named types)
//	            are encodable; NaN/±Inf and funcs/chans are not (error).  The result is an opaque byte
//	            slice carrying the encoded value.
//	Unmarshal(data, &x) with x interface{}: x receives a FRESH structure: every number a float64, every
//	            object a new map[string]interface{}, every array a new []interface{}.
//
// Unresolved lazy inputs are mirrored lazily (LazyCopy) so that a round trip does not force their shape.

type jsonErr struct{ msg string }

func init() {
	stdModels["encoding/json.Marshal"] = hJSONMarshal
	stdModels["encoding/json.MarshalIndent"] = hJSONMarshal
	stdModels["encoding/json.Unmarshal"] = hJSONUnmarshal
	// YAML rendering of a value is opaque text
	yamlMarshal := func(ex *Exec, c *frame, fn *ssa.Function, a []Value) Value {
		return Tuple{Slice{Arr: &Array{StrSrc: "<yaml>"}, Len: -1, Cap: -1}, Iface{}}
	}
	stdModels["gopkg.in/yaml.v2.Marshal"] = yamlMarshal
	stdModels["github.com/jsccast/yaml.Marshal"] = yamlMarshal
}

func hJSONMarshal(ex *Exec, c *frame, fn *ssa.Function, a []Value) Value {
	v, failed := ex.jsonEncodeValue(a[0], c, 0)
	if failed != "" {
		return Tuple{Slice{}, ex.newError("json: unsupported value: " + failed)}
	}
	return Tuple{Slice{Arr: &Array{Enc: &encoded{v: v}}, Len: -2, Cap: -2}, Iface{}}
}

type encoded struct {
	v Value // interface-typed engine value, already converted (fresh, JSON types only)
}

func hJSONUnmarshal(ex *Exec, c *frame, fn *ssa.Function, a []Value) Value {
	data, _ := a[0].(Slice)
	target := ex.forceIface(a[1])
	ptr, _ := target.V.(*Cell)
	if ptr == nil {
		return ex.newError("json: Unmarshal(nil)")
	}
	var val Value
	switch {
	case data.Arr != nil && data.Arr.Enc != nil:
		// a second, independent copy: Unmarshal always builds fresh structure
		v, failed := ex.jsonEncodeValue(data.Arr.Enc.v, c, 0)
		if failed != "" {
			return ex.newError("json: " + failed)
		}
		val = v
	case data.Arr != nil && data.Arr.StrSrc != nil:
		s, ok := data.Arr.StrSrc.(string)
		if !ok {
			v, okp := ex.jsonParseSymbolic(data.Arr.StrSrc.(*SymStr))
			if !okp {
				return ex.newError("json: invalid character")
			}
			val = v
			break
		}
		var x interface{}
		if err := json.Unmarshal([]byte(s), &x); err != nil {
			return ex.newError("json: " + err.Error())
		}
		val = ex.fromNative(x)
	case data.Arr != nil && data.Arr.E != nil:
		b := make([]byte, data.Len)
		for i := 0; i < data.Len; i++ {
			cv, ok := data.Arr.E[data.Off+i].V.(int64)
			if !ok {
				panic(engineErr("json.Unmarshal of symbolic bytes"))
			}
			b[i] = byte(cv)
		}
		var x interface{}
		if err := json.Unmarshal(b, &x); err != nil {
			return ex.newError("json: " + err.Error())
		}
		val = ex.fromNative(x)
	default:
		return ex.newError("json: unexpected end of JSON input")
	}
	// typed targets: decode according to the static type of the pointer
	if pt, ok := target.T.Underlying().(*types.Pointer); ok {
		if _, isIface := pt.Elem().Underlying().(*types.Interface); !isIface {
			nv, ok := ex.decodeInto(pt.Elem(), val, c, 0)
			if !ok {
				return ex.newError("json: cannot unmarshal value into Go value of type " + pt.Elem().String())
			}
			// documented reuse of the target: a non-nil map keeps its existing entries (the decoded ones are
			// stored over them); a struct keeps the fields the document does not mention
			switch pt.Elem().Underlying().(type) {
			case *types.Map:
				if cur, isMap := ptr.V.(*Map); isMap && cur != nil {
					if dm, _ := nv.(*Map); dm != nil {
						for _, e := range dm.live() {
							ex.mapUpdate(cur, e.K, e.V, c)
						}
						return Iface{}
					}
				}
			case *types.Struct:
				if cur, isStruct := ptr.V.(*Struct); isStruct && cur != nil {
					if iv := ex.forceIface(val); iv.T != nil {
						if m, isMap := iv.V.(*Map); isMap {
							keep := copyVal(cur).(*Struct)
							if ex.decodeStructFrom(pt.Elem().Underlying().(*types.Struct), keep, m, c, 0) {
								nv = keep
							}
						}
					}
				}
			}
			ex.store(ptr, nv, c)
			return Iface{}
		}
	}
	ex.store(ptr, val, c)
	return Iface{}
}

// fromNative converts a natively decoded JSON value into engine values.
func (ex *Exec) fromNative(x interface{}) Value {
	switch v := x.(type) {
	case nil:
		return Iface{}
	case bool:
		return Iface{T: types.Typ[types.Bool], V: v}
	case float64:
		return Iface{T: types.Typ[types.Float64], V: v}
	case string:
		return Iface{T: types.Typ[types.String], V: v}
	case map[string]interface{}:
		ex.nextID++
		m := &Map{ID: ex.nextID, T: tMapSI}
		ks := make([]string, 0, len(v))
		for k := range v {
			ks = append(ks, k)
		}
		sort.Strings(ks)
		for _, k := range ks {
			m.Entries = append(m.Entries, &MapEntry{K: k, V: ex.fromNative(v[k])})
		}
		return Iface{T: tMapSI, V: m}
	case []interface{}:
		arr := &Array{E: make([]*Cell, len(v))}
		for i := range v {
			arr.E[i] = &Cell{V: ex.fromNative(v[i])}
		}
		return Iface{T: tSliceI, V: Slice{Arr: arr, Len: len(v), Cap: len(v)}}
	}
	panic(engineErr("fromNative %T", x))
}

// jsonEncodeValue returns the JSON round-trip image of v (fresh structure) or a failure reason.
func (ex *Exec) jsonEncodeValue(v Value, fr *frame, depth int) (Value, string) {
	if depth > 60 {
		panic(engineErr("json model: nesting too deep"))
	}
	switch x := v.(type) {
	case *Lazy:
		if x.Res == nil {
			return ex.lazyCopyOf(x), ""
		}
		return ex.jsonEncodeValue(*x.Res, fr, depth)
	case Iface:
		if x.T == nil {
			return Iface{}, ""
		}
		return ex.jsonEncodeTyped(x.T, x.V, fr, depth)
	}
	panic(engineErr("json model: value %T", v))
}

func (ex *Exec) jsonEncodeTyped(t types.Type, v Value, fr *frame, depth int) (Value, string) {
	// a MarshalJSON method declared in the module under test is executed for real
	if res, failed, handled := ex.customMarshal(t, v, fr, depth); handled {
		return res, failed
	}
	if t.String() == "github.com/Comcast/sheens/core.StopReason" {
		// generated MarshalJSON: the constant's name
		names := []string{"Done", "Limited", "InternalError", "BreakpointReached"}
		if i, ok := v.(int64); ok && i >= 0 && int(i) < len(names) {
			return Iface{T: types.Typ[types.String], V: names[i]}, ""
		}
		return nil, "invalid StopReason"
	}
	switch u := t.Underlying().(type) {
	case *types.Basic:
		switch {
		case u.Info()&types.IsBoolean != 0:
			return Iface{T: types.Typ[types.Bool], V: v}, ""
		case u.Info()&types.IsString != 0:
			return Iface{T: types.Typ[types.String], V: v}, ""
		case u.Info()&types.IsFloat != 0:
			switch f := v.(type) {
			case float64:
				if f != f || f > 1.797693134862315708145274237317043567981e+308 || f < -1.797693134862315708145274237317043567981e+308 {
					return nil, "NaN or Inf"
				}
			case *smt.Term:
				bad := smt.Or(smt.FPIsNaN(f), smt.FPIsInf(f))
				label := "json-nan"
				if fr != nil {
					label += "@" + fr.shortPos(fr.curInstr)
				}
				if ex.branch(label, simplifyBool(bad)) {
					return nil, "NaN or Inf"
				}
			}
			return Iface{T: types.Typ[types.Float64], V: v}, ""
		case u.Info()&types.IsInteger != 0:
			switch i := v.(type) {
			case int64:
				if u.Info()&types.IsUnsigned != 0 {
					return Iface{T: types.Typ[types.Float64], V: float64(uint64(i))}, ""
				}
				return Iface{T: types.Typ[types.Float64], V: float64(i)}, ""
			case *smt.Term:
				if u.Info()&types.IsUnsigned != 0 {
					return Iface{T: types.Typ[types.Float64], V: smt.FPFromUBV(i)}, ""
				}
				return Iface{T: types.Typ[types.Float64], V: smt.FPFromSBV(i)}, ""
			}
		}
	case *types.Pointer:
		c, _ := v.(*Cell)
		if c == nil {
			return Iface{}, ""
		}
		return ex.jsonEncodeElem(u.Elem(), c.V, fr, depth+1)
	case *types.Interface:
		return ex.jsonEncodeValue(v, fr, depth+1)
	case *types.Map:
		if !isString(u.Key()) {
			return nil, "map with non-string keys"
		}
		m, _ := v.(*Map)
		if m == nil {
			return Iface{}, "" // nil map encodes as null
		}
		ex.forceMap(m)
		ex.nextID++
		nm := &Map{ID: ex.nextID, T: tMapSI}
		for _, e := range m.live() {
			ev, failed := ex.jsonEncodeElem(u.Elem(), e.V, fr, depth+1)
			if failed != "" {
				return nil, failed
			}
			nm.Entries = append(nm.Entries, &MapEntry{K: e.K, V: ev})
		}
		return Iface{T: tMapSI, V: nm}, ""
	case *types.Slice:
		s, _ := v.(Slice)
		if s.Arr == nil {
			return Iface{}, "" // nil slice encodes as null
		}
		if s.Len < 0 {
			panic(engineErr("json model: byte image inside a value"))
		}
		arr := &Array{E: make([]*Cell, s.Len)}
		for i := 0; i < s.Len; i++ {
			ev, failed := ex.jsonEncodeElem(u.Elem(), s.Arr.E[s.Off+i].V, fr, depth+1)
			if failed != "" {
				return nil, failed
			}
			arr.E[i] = &Cell{V: ev}
		}
		return Iface{T: tSliceI, V: Slice{Arr: arr, Len: s.Len, Cap: s.Len}}, ""
	case *types.Struct:
		if u.NumFields() == 0 {
			ex.nextID++
			return Iface{T: tMapSI, V: &Map{ID: ex.nextID, T: tMapSI}}, "" // struct{} encodes as {}
		}
		if h := structEncoders[t.String()]; h != nil {
			return h(ex, v.(*Struct), fr, depth)
		}
		if t.String() == "time.Time" {
			if ns, concrete := timeNSV(v).(int64); concrete {
				return Iface{T: types.Typ[types.String], V: "T" + itoa(ns)}, ""
			}
			// a symbolic instant has no text in this model: good enough for logging, not for reading back
			return Iface{T: types.Typ[types.String], V: "T?"}, ""
		}
		return ex.encodeStruct(t, v.(*Struct), fr, depth)
	case *types.Signature, *types.Chan:
		return nil, "unsupported type " + t.String()
	}
	panic(engineErr("json model: type %s (%T)", t, v))
}

// structEncoders: per-type models of reflection-driven struct encoding (field tags read from the source).
var structEncoders = map[string]func(ex *Exec, s *Struct, fr *frame, depth int) (Value, string){}

func (ex *Exec) jsonEncodeElem(t types.Type, v Value, fr *frame, depth int) (Value, string) {
	if _, isIface := t.Underlying().(*types.Interface); isIface {
		return ex.jsonEncodeValue(v, fr, depth)
	}
	return ex.jsonEncodeTyped(t, v, fr, depth)
}

// ---- lazy mirrored copies ----

// copyDom maps a source tag domain to the domain of its JSON round-trip image.
func copyDom(d int) int {
	r := d & (TNil | TBool | TF64 | TStr | TMap | TArr)
	if d&(TI64|TInt) != 0 {
		r |= TF64
	}
	if d&TAlien != 0 {
		r |= TMap // struct{} -> {}
	}
	return r
}

// srcTags: the source tags whose image is in set.
func srcTags(set int) int {
	r := set & (TNil | TBool | TF64 | TStr | TMap | TArr)
	if set&TF64 != 0 {
		r |= TI64 | TInt
	}
	if set&TMap != 0 {
		r |= TAlien
	}
	return r
}

func (ex *Exec) lazyCopyOf(src *Lazy) *Lazy {
	ex.nextID++
	return &Lazy{ID: ex.nextID, Name: src.Name + "'", Dom: copyDom(src.Dom), Depth: src.Depth, Opts: src.Opts, CopyOf: src}
}

// resolveCopy materialises a mirrored copy once its domain is a singleton.
func (ex *Exec) resolveCopy(l *Lazy) Iface {
	src := l.CopyOf
	// bring the source to a single tag consistent with ours
	want := srcTags(l.Dom) & src.Dom
	if src.Res == nil {
		ts := tags(want)
		if len(ts) == 0 {
			panic(pathEnd{"infeasible"})
		}
		if len(ts) > 1 {
			i := ex.chooseN("tag:"+src.Name, len(ts))
			want = ts[i]
		}
		src.Dom = want
		src.domTouched = true
	}
	iv := ex.lazyResolve(src)
	v, failed := ex.jsonEncodeValue(iv, nil, 0)
	if failed != "" {
		// an input declared Finite never fails; otherwise the NaN case was split off by the encoder
		panic(pathEnd{"pruned"})
	}
	r := ex.forceIface(v)
	l.Res = &r
	return r
}

// jsonParseSymbolic: the parse model for a symbolic JSON text: either invalid or an arbitrary JSON value
// (functional: the same text object yields the same result).
func (ex *Exec) jsonParseSymbolic(s *SymStr) (Value, bool) {
	if ex.parseMemo == nil {
		ex.parseMemo = map[string]*parseRes{}
	}
	key := s.String()
	if r, ok := ex.parseMemo[key]; ok {
		if !r.ok {
			return nil, false
		}
		return ex.lazyCopyOf(r.val), true
	}
	ok := ex.chooseN("json-parse-ok", 2) == 0
	r := &parseRes{ok: ok}
	if ok {
		o := &JSONOpts{Name: "parsed", Depth: 1, Width: 2, Tags: TagsJSON, Leaf: TagsScalars, Finite: true}
		r.val = ex.newLazy(fmt.Sprintf("parsed%d", len(ex.parseMemo)), 1, o)
		ex.inputs = append(ex.inputs, &inputRec{Kind: "parsed", Name: key, Val: r.val})
	}
	ex.parseMemo[key] = r
	if !ok {
		return nil, false
	}
	return ex.lazyCopyOf(r.val), true
}

type parseRes struct {
	ok  bool
	val *Lazy
}

// customMarshal runs a module type's own MarshalJSON (value or pointer receiver) and takes the value it
// encoded; such methods may lock, copy or rename, which the field-by-field model would miss.
func (ex *Exec) customMarshal(t types.Type, v Value, fr *frame, depth int) (Value, string, bool) {
	recvT := t
	recv := v
	named, isNamed := t.(*types.Named)
	if p, isPtr := t.(*types.Pointer); isPtr {
		named, isNamed = p.Elem().(*types.Named)
		if c, ok := v.(*Cell); !ok || c == nil {
			return nil, "", false
		}
	}
	if !isNamed || named.Obj().Pkg() == nil {
		return nil, "", false
	}
	path := named.Obj().Pkg().Path()
	if path != ex.cfg.ModulePath && !strings.HasPrefix(path, ex.cfg.ModulePath+"/") {
		return nil, "", false
	}
	var m *ssa.Function
	if sel := ex.prog.MethodSets.MethodSet(recvT).Lookup(named.Obj().Pkg(), "MarshalJSON"); sel != nil {
		m = ex.prog.MethodValue(sel)
	}
	if m == nil {
		if _, isPtr := t.(*types.Pointer); isPtr {
			return nil, "", false
		}
		// pointer-receiver method on an addressable value: only reachable through a pointer in practice
		return nil, "", false
	}
	if depth > 40 {
		panic(engineErr("json model: MarshalJSON recursion"))
	}
	res := ex.call(m, []Value{recv}, nil, fr)
	tup, ok := res.(Tuple)
	if !ok || len(tup) != 2 {
		panic(engineErr("json model: unexpected MarshalJSON result"))
	}
	if e := ex.forceIface(tup[1]); e.T != nil {
		return nil, "MarshalJSON failed", true
	}
	sl, _ := tup[0].(Slice)
	if sl.Arr != nil && sl.Arr.Enc != nil {
		return sl.Arr.Enc.v, "", true
	}
	panic(engineErr("json model: MarshalJSON of %s returned bytes that are not a model encoding", t))
}
