package exec

import (
	"go/token"
	"go/types"
	"path/filepath"
	"sync"

	"golang.org/x/tools/go/ssa"
)

var (
	opaqueTypesMu sync.Mutex
	opaqueTypes   = map[string]types.Type{}
)

// opaqueType: the dynamic type of interface values holding a model object of the given kind.
func opaqueType(kind string) types.Type {
	opaqueTypesMu.Lock()
	defer opaqueTypesMu.Unlock()
	if t, ok := opaqueTypes[kind]; ok {
		return t
	}
	t := types.NewPointer(types.NewNamed(types.NewTypeName(token.NoPos, nil, "model_"+kind, nil), types.NewStruct(nil, nil), nil))
	opaqueTypes[kind] = t
	return t
}

func (ex *Exec) newOpaque(kind string) *Opaque {
	ex.nextID++
	return &Opaque{Kind: kind, ID: ex.nextID, Fields: map[string]Value{}}
}

func opaqueIface(o *Opaque) Iface { return Iface{T: opaqueType(o.Kind), V: o} }

func init() {
	ctxBg := func(ex *Exec, c *frame, fn *ssa.Function, a []Value) Value {
		return opaqueIface(ex.newCtx(nil, false))
	}
	// files: an in-memory directory tree is enough (paths are concrete)
	stdModels["os.MkdirTemp"] = func(ex *Exec, c *frame, fn *ssa.Function, a []Value) Value {
		ex.nextID++
		return Tuple{"/tmp/" + mustStr(a[1]) + itoa(int64(ex.nextID)), Iface{}}
	}
	stdModels["os.RemoveAll"] = func(ex *Exec, c *frame, fn *ssa.Function, a []Value) Value { return Iface{} }
	stdModels["os.WriteFile"] = func(ex *Exec, c *frame, fn *ssa.Function, a []Value) Value { return Iface{} }
	stdModels["path/filepath.Join"] = func(ex *Exec, c *frame, fn *ssa.Function, a []Value) Value {
		sl := a[0].(Slice)
		parts := make([]string, sl.Len)
		for i := range parts {
			parts[i] = mustStr(sl.Arr.E[sl.Off+i].V)
		}
		return filepath.Join(parts...)
	}
	stdModels["regexp.MustCompile"] = func(ex *Exec, c *frame, fn *ssa.Function, a []Value) Value {
		return ex.newOpaque("regexp")
	}
	stdModels["context.Background"] = ctxBg
	stdModels["context.TODO"] = ctxBg

	// sync.Pool: Get returns any object previously Put and not yet handed out again, or a new one (the
	// runtime may drop pooled objects at any time); Put makes the object available to later Gets.
	stdModels["(*sync.Pool).Put"] = func(ex *Exec, c *frame, fn *ssa.Function, a []Value) Value {
		pool, _ := a[0].(*Cell)
		if pool == nil {
			ex.goPanicf("invalid memory address or nil pointer dereference")
		}
		if iv, ok := a[1].(Iface); ok && iv.T == nil {
			return nil
		}
		if ex.pools == nil {
			ex.pools = map[*Cell][]Value{}
		}
		ex.pools[pool] = append(ex.pools[pool], a[1])
		ex.note("sync.Pool.Put")
		return nil
	}
	stdModels["(*sync.Pool).Get"] = func(ex *Exec, c *frame, fn *ssa.Function, a []Value) Value {
		pool, _ := a[0].(*Cell)
		if pool == nil {
			ex.goPanicf("invalid memory address or nil pointer dereference")
		}
		items := ex.pools[pool]
		if len(items) > 0 {
			i := ex.chooseN("pool-get", len(items)+1)
			if i < len(items) {
				ex.note("sync.Pool.Get-reuses-pooled-object")
				v := items[i]
				ex.pools[pool] = append(append([]Value{}, items[:i]...), items[i+1:]...)
				return v
			}
		}
		// New field: the last field of sync.Pool
		st := pool.V.(*Struct)
		newFn := st.F[len(st.F)-1].V
		if isNilFunc(newFn) {
			return Iface{}
		}
		return ex.call(newFn, nil, nil, c)
	}

}

func ptrTo(t types.Type) types.Type { return types.NewPointer(t) }
