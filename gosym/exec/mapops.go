package exec

import (
	"fmt"
	"go/types"

	"golang.org/x/tools/go/ssa"

	"sheensverif/gosym/smt"
)

// keyEq compares two map keys of static key type kt. Result bool or *smt.Term.
func (ex *Exec) keyEq(kt types.Type, a, b Value, fr *frame) Value {
	if _, isIface := kt.Underlying().(*types.Interface); isIface {
		ia, ib := ex.forceIface(a), ex.forceIface(b)
		if ia.T == nil || ib.T == nil {
			return ia.T == nil && ib.T == nil
		}
		if !types.Identical(ia.T, ib.T) {
			return false
		}
		if !types.Comparable(ia.T) {
			ex.goPanicf("hash of unhashable type %s", ia.T)
		}
		return ex.equal(ia.T, ia.V, ib.V, fr)
	}
	return ex.equal(kt, a, b, fr)
}

// findEntry locates the entry for key k, forking over symbolic key equalities.
// Returns nil when the key is absent on this path.
func (ex *Exec) findEntry(m *Map, k Value, fr *frame, what string) *MapEntry {
	ex.forceMap(m)
	kt := m.T.Key()
	if _, isIface := kt.Underlying().(*types.Interface); isIface {
		ik := ex.forceIface(k)
		if ik.T != nil && !types.Comparable(ik.T) {
			ex.goPanicf("hash of unhashable type %s", ik.T)
		}
		k = ik
	}
	var cands []*MapEntry
	var conds []*smt.Term
	for _, e := range m.Entries {
		if e.Deleted {
			continue
		}
		r := ex.keyEq(kt, e.K, k, fr)
		switch c := r.(type) {
		case bool:
			if c {
				return e
			}
		case *smt.Term:
			if c.S == "true" {
				return e
			}
			if c.S == "false" {
				continue
			}
			if ex.pcSet[c.S] {
				return e
			}
			if ex.pcSet[smt.Not(c).S] {
				continue
			}
			cands = append(cands, e)
			conds = append(conds, c)
		}
	}
	if len(cands) == 0 {
		return nil
	}
	alts := make([]alt, 0, len(cands)+1)
	var negs []*smt.Term
	for _, c := range conds {
		alts = append(alts, alt{cond: c})
		negs = append(negs, smt.Not(c))
	}
	alts = append(alts, alt{cond: smt.And(negs...)})
	i := ex.choose(what+"@"+fr.shortPos(fr.curInstr), alts)
	if i < len(cands) {
		return cands[i]
	}
	return nil
}

func (ex *Exec) lookupOp(in *ssa.Lookup, fr *frame) Value {
	x := fr.get(in.X)
	k := fr.get(in.Index)
	switch m := x.(type) {
	case string, *SymStr:
		return ex.stringIndex(x, k, fr)
	case *Map:
		et := in.X.Type().Underlying().(*types.Map).Elem()
		var v Value
		found := false
		if m != nil {
			ex.raceRead(&m.Acc, fr)
			if e := ex.findEntry(m, k, fr, "lookup"); e != nil {
				e.Touched = true
				v, found = copyVal(e.V), true
			}
		}
		if !found {
			v = zero(et)
		}
		if in.CommaOk {
			return Tuple{v, found}
		}
		return v
	}
	panic(engineErr("Lookup on %T", x))
}

func (ex *Exec) mapUpdate(mv, k, v Value, fr *frame) {
	m, _ := mv.(*Map)
	if m == nil {
		ex.goPanicf("assignment to entry in nil map")
	}
	ex.raceWrite(&m.Acc, fr)
	if e := ex.findEntry(m, k, fr, "mapupd"); e != nil {
		// storing the very same value back is not a modification (no observer can tell)
		if m.Own != nil && !identicalValue(e.V, v) {
			ex.recordWrite(m.Own, fr)
		}
		e.V = copyVal(v)
		e.Touched = true
		return
	}
	if m.Own != nil {
		ex.recordWrite(m.Own, fr)
	}
	if _, isIface := m.T.Key().Underlying().(*types.Interface); isIface {
		k = ex.forceIface(k)
	}
	m.Entries = append(m.Entries, &MapEntry{K: k, V: copyVal(v), Touched: true})
}

func (ex *Exec) mapDelete(mv, k Value, fr *frame) {
	m, _ := mv.(*Map)
	if m == nil {
		return
	}
	ex.raceWrite(&m.Acc, fr)
	if e := ex.findEntry(m, k, fr, "mapdel"); e != nil {
		if m.Own != nil {
			ex.recordWrite(m.Own, fr)
		}
		e.Deleted = true
	}
}

// ---- range ----

func (ex *Exec) rangeOp(x Value, in *ssa.Range, fr *frame) Value {
	switch v := x.(type) {
	case *Map:
		it := &Iter{M: v, Visited: map[*MapEntry]bool{}}
		if v != nil {
			ex.forceMap(v)
			ex.raceRead(&v.Acc, fr)
		}
		return it
	case string:
		return &Iter{Str: v}
	case *SymStr:
		panic(engineErr("range over symbolic string at %s", fr.pos()))
	}
	panic(engineErr("range over %T", x))
}

func (ex *Exec) nextOp(it *Iter, in *ssa.Next, fr *frame) Value {
	if in.IsString {
		s := it.Str.(string)
		if it.StrPos >= len(s) {
			return Tuple{false, int64(0), int64(0)}
		}
		for i, r := range s[it.StrPos:] {
			_ = i
			pos := it.StrPos
			it.StrPos += len(string(r))
			return Tuple{true, int64(pos), int64(r)}
		}
	}
	tt := in.Type().(*types.Tuple)
	zk, zv := zero(tt.At(1).Type()), zero(tt.At(2).Type())
	if it.M == nil {
		return Tuple{false, zk, zv}
	}
	var cands []*MapEntry
	for _, e := range it.M.Entries {
		if !e.Deleted && !it.Visited[e] {
			cands = append(cands, e)
		}
	}
	if len(cands) == 0 {
		return Tuple{false, zk, zv}
	}
	idx := 0
	if len(cands) > 1 && !ex.mapOrderInsertion && !ex.orderIrrelevant(in) && !ex.orderLemma(fr) && (ex.orderOnly == nil || ex.orderOnly[fr.fn.String()]) {
		// pristine-entry symmetry: untouched entries of a lazily created map are interchangeable;
		// keep only the first representative of that class among the candidates.
		var reps []*MapEntry
		seenPristine := false
		for _, e := range cands {
			if it.M.Origin != nil && !e.Touched && ex.pristine(e) {
				if seenPristine {
					continue
				}
				seenPristine = true
			}
			reps = append(reps, e)
		}
		if len(reps) > 1 {
			i := ex.chooseN(fmt.Sprintf("maporder@%s", fr.shortPos(in)), len(reps))
			cands = reps
			idx = i
		} else {
			cands = reps
		}
	}
	e := cands[idx]
	it.Visited[e] = true
	e.Touched = true
	var k, v Value = zk, zv
	k = e.K
	v = copyVal(e.V)
	return Tuple{true, k, v}
}

// orderIrrelevant: a range whose key and value are both unused only counts entries.
func (ex *Exec) orderIrrelevant(in *ssa.Next) bool {
	refs := in.Referrers()
	if refs == nil {
		return false
	}
	for _, r := range *refs {
		if e, ok := r.(*ssa.Extract); ok && e.Index > 0 {
			if er := e.Referrers(); er != nil && len(*er) > 0 {
				return false
			}
		}
	}
	return true
}

// pristine: the entry's key is an unconstrained fresh symbol and its element an unresolved lazy value.
func (ex *Exec) pristine(e *MapEntry) bool {
	l, ok := e.V.(*Lazy)
	if !ok || l.Res != nil || l.domTouched {
		return false
	}
	return !e.Touched
}

// orderLemma: the enclosing function is on the list of functions whose result was shown (by the
// OrderLemma harnesses, all orders explored there) not to depend on map iteration order; inside them
// the insertion order is used.
func (ex *Exec) orderLemma(fr *frame) bool {
	if ex.cfg.OrderInsensitive == nil || ex.noOrderLemma {
		return false
	}
	if ex.cfg.OrderInsensitive[fr.fn.String()] {
		ex.note("order-lemma:" + fr.fn.String())
		return true
	}
	return false
}

// identicalValue: a and b are the same value by identity (same object, same term, equal constants).
func identicalValue(a, b Value) bool {
	switch x := a.(type) {
	case *Lazy:
		y, ok := b.(*Lazy)
		return ok && x == y
	case Iface:
		y, ok := b.(Iface)
		if !ok {
			return false
		}
		if x.T == nil || y.T == nil {
			return x.T == nil && y.T == nil
		}
		return types.Identical(x.T, y.T) && identicalValue(x.V, y.V)
	case *smt.Term:
		y, ok := b.(*smt.Term)
		return ok && x.S == y.S
	case *SymStr:
		y, ok := b.(*SymStr)
		return ok && x.String() == y.String()
	case *Map:
		y, ok := b.(*Map)
		return ok && x == y
	case Slice:
		y, ok := b.(Slice)
		return ok && x.Arr == y.Arr && x.Off == y.Off && x.Len == y.Len
	case *Cell:
		y, ok := b.(*Cell)
		return ok && x == y
	case bool, int64, string:
		return a == b
	case float64:
		y, ok := b.(float64)
		return ok && (x == y || (x != x && y != y))
	}
	return false
}
