package exec

import (
	"fmt"
	"go/token"
	"go/types"
	"math"

	"golang.org/x/tools/go/ssa"

	"sheensverif/gosym/smt"
)

func (ex *Exec) unop(in *ssa.UnOp, x Value, fr *frame) Value {
	switch in.Op {
	case token.MUL: // load
		return ex.load(x, fr)
	case token.ARROW:
		return ex.chanRecv(x, in.CommaOk, in.Type(), fr)
	case token.NOT:
		switch v := x.(type) {
		case bool:
			return !v
		case *smt.Term:
			return smt.Not(v)
		}
	case token.SUB:
		switch v := x.(type) {
		case int64:
			return normInt(-v, in.X.Type())
		case float64:
			return -v
		case *smt.Term:
			if v.Sort.K == smt.KFP {
				return smt.FPNeg(v)
			}
			return smt.BVNeg(v)
		}
	case token.XOR:
		switch v := x.(type) {
		case int64:
			return normInt(^v, in.X.Type())
		case *smt.Term:
			return smt.BVNot(v)
		}
	}
	panic(engineErr("unop %s on %T", in.Op, x))
}

func (ex *Exec) binop(op token.Token, t types.Type, x, y Value, fr *frame) Value {
	// interfaces / pointers / aggregates: only == and !=
	switch op {
	case token.EQL, token.NEQ:
		r := ex.equal(t, x, y, fr)
		if op == token.NEQ {
			return notV(r)
		}
		return r
	}
	if isSym(x) || isSym(y) {
		return ex.symBinop(op, t, x, y, fr)
	}
	switch a := x.(type) {
	case int64:
		b, ok := y.(int64)
		if !ok {
			break
		}
		uns := isUnsigned(t)
		switch op {
		case token.ADD:
			return normInt(a+b, t)
		case token.SUB:
			return normInt(a-b, t)
		case token.MUL:
			return normInt(a*b, t)
		case token.QUO:
			if b == 0 {
				ex.goPanicf("integer divide by zero")
			}
			if uns {
				return normInt(int64(uint64(a)/uint64(b)), t)
			}
			return normInt(a/b, t)
		case token.REM:
			if b == 0 {
				ex.goPanicf("integer divide by zero")
			}
			if uns {
				return normInt(int64(uint64(a)%uint64(b)), t)
			}
			return normInt(a%b, t)
		case token.AND:
			return normInt(a&b, t)
		case token.OR:
			return normInt(a|b, t)
		case token.XOR:
			return normInt(a^b, t)
		case token.AND_NOT:
			return normInt(a&^b, t)
		case token.SHL:
			if b < 0 {
				ex.goPanicf("negative shift amount")
			}
			if b >= 64 {
				return int64(0)
			}
			return normInt(a<<uint(b), t)
		case token.SHR:
			if b < 0 {
				ex.goPanicf("negative shift amount")
			}
			if uns {
				if b >= 64 {
					return int64(0)
				}
				return normInt(int64(uint64(a)>>uint(b)), t)
			}
			if b >= 64 {
				b = 63
			}
			return normInt(a>>uint(b), t)
		case token.LSS:
			if uns {
				return uint64(a) < uint64(b)
			}
			return a < b
		case token.LEQ:
			if uns {
				return uint64(a) <= uint64(b)
			}
			return a <= b
		case token.GTR:
			if uns {
				return uint64(a) > uint64(b)
			}
			return a > b
		case token.GEQ:
			if uns {
				return uint64(a) >= uint64(b)
			}
			return a >= b
		}
	case float64:
		b, ok := y.(float64)
		if !ok {
			break
		}
		f32 := basicOf(t) != nil && basicOf(t).Kind() == types.Float32
		r := func(v float64) Value {
			if f32 {
				return float64(float32(v))
			}
			return v
		}
		switch op {
		case token.ADD:
			return r(a + b)
		case token.SUB:
			return r(a - b)
		case token.MUL:
			return r(a * b)
		case token.QUO:
			return r(a / b)
		case token.LSS:
			return a < b
		case token.LEQ:
			return a <= b
		case token.GTR:
			return a > b
		case token.GEQ:
			return a >= b
		}
	case string:
		b, ok := y.(string)
		if !ok {
			break
		}
		switch op {
		case token.ADD:
			return a + b
		case token.LSS:
			return a < b
		case token.LEQ:
			return a <= b
		case token.GTR:
			return a > b
		case token.GEQ:
			return a >= b
		}
	case bool:
		b, ok := y.(bool)
		if !ok {
			break
		}
		switch op {
		case token.AND, token.LAND:
			return a && b
		case token.OR, token.LOR:
			return a || b
		}
	}
	panic(engineErr("binop %s on %T, %T at %s", op, x, y, fr.pos()))
}

func notV(v Value) Value {
	switch x := v.(type) {
	case bool:
		return !x
	case *smt.Term:
		return smt.Not(x)
	}
	panic(engineErr("not on %T", v))
}

func (ex *Exec) symBinop(op token.Token, t types.Type, x, y Value, fr *frame) Value {
	switch {
	case isInteger(t):
		a := toTerm(x, t)
		var b *smt.Term
		if op == token.SHL || op == token.SHR {
			// shift count may have a different width
			switch yv := y.(type) {
			case int64:
				b = smt.BVConst(uint64(yv), a.Sort.W)
			case *smt.Term:
				b = smt.BVResize(yv, a.Sort.W, false)
			}
		} else {
			b = toTerm(y, t)
		}
		uns := isUnsigned(t)
		pick := func(s, u string) string {
			if uns {
				return u
			}
			return s
		}
		switch op {
		case token.ADD:
			return smt.BVBin("bvadd", a, b)
		case token.SUB:
			return smt.BVBin("bvsub", a, b)
		case token.MUL:
			return smt.BVBin("bvmul", a, b)
		case token.QUO, token.REM:
			z := smt.Same(b, smt.BVConst(0, b.Sort.W))
			if ex.branch("div0@"+fr.shortPos(fr.curInstr), z) {
				ex.goPanicf("integer divide by zero")
			}
			if op == token.QUO {
				return smt.BVBin(pick("bvsdiv", "bvudiv"), a, b)
			}
			return smt.BVBin(pick("bvsrem", "bvurem"), a, b)
		case token.AND:
			return smt.BVBin("bvand", a, b)
		case token.OR:
			return smt.BVBin("bvor", a, b)
		case token.XOR:
			return smt.BVBin("bvxor", a, b)
		case token.AND_NOT:
			return smt.BVBin("bvand", a, smt.BVNot(b))
		case token.SHL:
			return smt.BVBin("bvshl", a, b)
		case token.SHR:
			return smt.BVBin(pick("bvashr", "bvlshr"), a, b)
		case token.LSS:
			return smt.BVCmp(pick("bvslt", "bvult"), a, b)
		case token.LEQ:
			return smt.BVCmp(pick("bvsle", "bvule"), a, b)
		case token.GTR:
			return smt.BVCmp(pick("bvsgt", "bvugt"), a, b)
		case token.GEQ:
			return smt.BVCmp(pick("bvsge", "bvuge"), a, b)
		}
	case isFloat(t):
		a, b := toTerm(x, t), toTerm(y, t)
		switch op {
		case token.ADD:
			return smt.FPBin("fp.add", a, b)
		case token.SUB:
			return smt.FPBin("fp.sub", a, b)
		case token.MUL:
			return smt.FPBin("fp.mul", a, b)
		case token.QUO:
			return smt.FPBin("fp.div", a, b)
		case token.LSS:
			return smt.FPCmp("fp.lt", a, b)
		case token.LEQ:
			return smt.FPCmp("fp.leq", a, b)
		case token.GTR:
			return smt.FPCmp("fp.gt", a, b)
		case token.GEQ:
			return smt.FPCmp("fp.geq", a, b)
		}
	case isString(t):
		switch op {
		case token.ADD:
			return strConcat(x, y)
		case token.LSS:
			return strLess(x, y, false)
		case token.LEQ:
			return strLess(x, y, true)
		case token.GTR:
			return strLess(y, x, false)
		case token.GEQ:
			return strLess(y, x, true)
		}
	case isBoolean(t):
		a, b := toTerm(x, t), toTerm(y, t)
		switch op {
		case token.AND, token.LAND:
			return smt.And(a, b)
		case token.OR, token.LOR:
			return smt.Or(a, b)
		}
	}
	panic(engineErr("symbolic binop %s on type %s at %s", op, t, fr.pos()))
}

// equal implements Go's == for static type t. Result: bool or *smt.Term.
func (ex *Exec) equal(t types.Type, x, y Value, fr *frame) Value {
	switch u := t.Underlying().(type) {
	case *types.Basic:
		if u.Kind() == types.UntypedNil {
			return true
		}
		if u.Info()&types.IsString != 0 {
			ea, aEnc := x.(*EncStr)
			eb, bEnc := y.(*EncStr)
			if aEnc || bEnc {
				if !aEnc || !bEnc {
					return false // an encoding never equals a plain string of a harness vocabulary
				}
				if ea == eb {
					return true
				}
				return ex.jsonEqual(ea.v, eb.v, fr)
			}
			return strEq(x, y)
		}
		if isSym(x) || isSym(y) {
			return smt.Eq(toTerm(x, t), toTerm(y, t))
		}
		switch a := x.(type) {
		case bool:
			return a == y.(bool)
		case int64:
			return a == y.(int64)
		case float64:
			return a == y.(float64)
		case string:
			return a == y.(string)
		case *Cell: // unsafe.Pointer
			return a == y.(*Cell)
		}
	case *types.Pointer:
		// model objects (foreign handles) are pointers too
		if ox, ok := x.(*Opaque); ok {
			oy, _ := y.(*Opaque)
			if _, yIsCell := y.(*Cell); yIsCell {
				return ox == nil && isNilPtr(y)
			}
			return ox == oy
		}
		if oy, ok := y.(*Opaque); ok {
			return oy == nil && isNilPtr(x)
		}
		a, _ := x.(*Cell)
		b, _ := y.(*Cell)
		return a == b
	case *types.Map:
		a, _ := x.(*Map)
		b, _ := y.(*Map)
		return a == b // only comparison with nil is legal
	case *types.Chan:
		a, _ := x.(*Chan)
		b, _ := y.(*Chan)
		return a == b
	case *types.Slice:
		a, _ := x.(Slice)
		b, _ := y.(Slice)
		// only comparison with nil
		if a.Arr == nil || b.Arr == nil {
			return a.Arr == b.Arr
		}
		return a.Arr == b.Arr && a.Off == b.Off && a.Len == b.Len
	case *types.Signature:
		return isNilFunc(x) == isNilFunc(y) && (isNilFunc(x) || fmt.Sprintf("%p", x) == fmt.Sprintf("%p", y))
	case *types.Interface:
		return ex.ifaceEqual(x, y, fr)
	case *types.Struct:
		a, b := x.(*Struct), y.(*Struct)
		var acc Value = true
		for i := 0; i < u.NumFields(); i++ {
			acc = andV(acc, ex.equal(u.Field(i).Type(), a.F[i].V, b.F[i].V, fr))
		}
		return acc
	case *types.Array:
		a, b := x.(*Array), y.(*Array)
		var acc Value = true
		for i := range a.E {
			acc = andV(acc, ex.equal(u.Elem(), a.E[i].V, b.E[i].V, fr))
		}
		return acc
	}
	panic(engineErr("equal on type %s (%T,%T) at %s", t, x, y, fr.pos()))
}

func isNilFunc(v Value) bool {
	switch x := v.(type) {
	case *Closure:
		return x == nil
	case *ssa.Function:
		return x == nil
	case nil:
		return true
	}
	return false
}

func andV(a, b Value) Value {
	if ab, ok := a.(bool); ok {
		if !ab {
			return false
		}
		return b
	}
	if bb, ok := b.(bool); ok {
		if !bb {
			return false
		}
		return a
	}
	return smt.And(a.(*smt.Term), b.(*smt.Term))
}

func orV(a, b Value) Value {
	if ab, ok := a.(bool); ok {
		if ab {
			return true
		}
		return b
	}
	if bb, ok := b.(bool); ok {
		if bb {
			return true
		}
		return a
	}
	return smt.Or(a.(*smt.Term), b.(*smt.Term))
}

// ifaceEqual: Go interface equality (same dynamic type and equal values; panics on uncomparable).
func (ex *Exec) ifaceEqual(x, y Value, fr *frame) Value {
	// fast paths that avoid forcing lazies
	if lx, ok := x.(*Lazy); ok {
		if ly, ok := y.(*Lazy); ok && lx == ly {
			lx2 := ex.lazyForce(lx)
			// NaN != NaN even for the same value; maps/slices panic
			return ex.ifaceEqualResolved(lx2, lx2, fr)
		}
		if iy, ok := y.(Iface); ok && iy.T == nil {
			return ex.lazyIsNil(lx)
		}
	}
	if ly, ok := y.(*Lazy); ok {
		if ix, ok := x.(Iface); ok && ix.T == nil {
			return ex.lazyIsNil(ly)
		}
	}
	return ex.ifaceEqualResolved(ex.forceIface(x), ex.forceIface(y), fr)
}

func (ex *Exec) ifaceEqualResolved(a, b Iface, fr *frame) Value {
	if a.T == nil || b.T == nil {
		return a.T == nil && b.T == nil
	}
	if !types.Identical(a.T, b.T) {
		return false
	}
	if !types.Comparable(a.T) {
		ex.goPanicf("comparing uncomparable type %s", a.T)
	}
	return ex.equal(a.T, a.V, b.V, fr)
}

// ---- conversions ----

func (ex *Exec) conv(dst, src types.Type, x Value) Value {
	ud, us := dst.Underlying(), src.Underlying()
	switch d := ud.(type) {
	case *types.Basic:
		switch {
		case d.Info()&types.IsInteger != 0:
			switch v := x.(type) {
			case int64:
				return normInt(v, dst)
			case float64:
				if math.IsNaN(v) || math.IsInf(v, 0) {
					return normInt(math.MinInt64, dst)
				}
				if isUnsigned(dst) {
					return normInt(int64(uint64(v)), dst)
				}
				return normInt(int64(v), dst)
			case *smt.Term:
				if v.Sort.K == smt.KFP {
					if isUnsigned(dst) {
						return smt.FPToUBV(v, intWidth(dst))
					}
					return smt.FPToSBV(v, intWidth(dst))
				}
				return smt.BVResize(v, intWidth(dst), !isUnsigned(src))
			}
		case d.Info()&types.IsFloat != 0:
			switch v := x.(type) {
			case int64:
				var f float64
				if isUnsigned(src) {
					f = float64(uint64(v))
				} else {
					f = float64(v)
				}
				if d.Kind() == types.Float32 {
					return float64(float32(f))
				}
				return f
			case float64:
				if d.Kind() == types.Float32 {
					return float64(float32(v))
				}
				return v
			case *smt.Term:
				if d.Kind() == types.Float32 {
					panic(engineErr("symbolic float32"))
				}
				if v.Sort.K == smt.KFP {
					return v
				}
				if isUnsigned(src) {
					return smt.FPFromUBV(v)
				}
				return smt.FPFromSBV(v)
			}
		case d.Info()&types.IsString != 0:
			switch v := x.(type) {
			case string:
				return v
			case int64: // string(rune)
				return string(rune(v))
			case *SymStr:
				return v
			case *EncStr:
				return v
			case *smt.Term:
				// string(byte-like): one character
				return &SymStr{Len: bv8(1), Ch: []*smt.Term{smt.BVResize(v, 8, false)}}
			case Slice: // []byte or []rune -> string
				if v.Arr != nil && v.Arr.StrSrc != nil && v.Arr.E == nil && v.Off == 0 {
					return v.Arr.StrSrc
				}
				if v.Arr != nil && v.Arr.Enc != nil {
					return &EncStr{v: v.Arr.Enc.v} // compared structurally, never inspected
				}
				if sl, ok := us.(*types.Slice); ok {
					if basicOf(sl.Elem()).Kind() == types.Byte {
						b := make([]byte, v.Len)
						for i := 0; i < v.Len; i++ {
							c, ok := v.Arr.E[v.Off+i].V.(int64)
							if !ok {
								panic(engineErr("symbolic byte in []byte->string"))
							}
							b[i] = byte(c)
						}
						return string(b)
					}
					r := make([]rune, v.Len)
					for i := 0; i < v.Len; i++ {
						r[i] = rune(v.Arr.E[v.Off+i].V.(int64))
					}
					return string(r)
				}
			}
		case d.Kind() == types.UnsafePointer:
			return x
		case d.Info()&types.IsBoolean != 0:
			return x
		}
	case *types.Slice:
		// string -> []byte / []rune
		if isString(src) {
			if basicOf(d.Elem()).Kind() == types.Byte {
				switch s := x.(type) {
				case string:
					arr := &Array{E: make([]*Cell, len(s)), StrSrc: nil}
					for i := range arr.E {
						arr.E[i] = &Cell{V: int64(s[i])}
					}
					return Slice{Arr: arr, Len: len(s), Cap: len(s)}
				case *SymStr:
					return Slice{Arr: &Array{StrSrc: s}, Len: -1, Cap: -1}
				case *EncStr:
					return Slice{Arr: &Array{Enc: &encoded{v: s.v}}, Len: -2, Cap: -2}
				}
			} else if s, ok := x.(string); ok {
				rs := []rune(s)
				arr := &Array{E: make([]*Cell, len(rs))}
				for i := range arr.E {
					arr.E[i] = &Cell{V: int64(rs[i])}
				}
				return Slice{Arr: arr, Len: len(rs), Cap: len(rs)}
			}
		}
		return x
	case *types.Pointer:
		return x
	}
	panic(engineErr("conversion %s -> %s of %T", src, dst, x))
}

// ---- builtins ----

func (ex *Exec) callBuiltin(b *ssa.Builtin, args []Value, site ssa.CallInstruction, fr *frame) Value {
	switch b.Name() {
	case "len":
		switch x := args[0].(type) {
		case string:
			return int64(len(x))
		case *SymStr:
			return strLenValue(x)
		case Slice:
			if x.Len < 0 {
				if x.Arr.Enc != nil {
					return int64(6) // len("<json>")
				}
				return strLenValue(x.Arr.StrSrc.(*SymStr))
			}
			return int64(x.Len)
		case *Map:
			if x == nil {
				return int64(0)
			}
			ex.forceMap(x)
			ex.raceRead(&x.Acc, fr)
			return int64(len(x.live()))
		case *Cell:
			return int64(len(x.V.(*Array).E))
		case *Array:
			return int64(len(x.E))
		case *Chan:
			if x == nil {
				return int64(0)
			}
			return int64(len(x.buf))
		}
	case "cap":
		switch x := args[0].(type) {
		case Slice:
			return int64(x.Cap)
		case *Cell:
			return int64(len(x.V.(*Array).E))
		case *Array:
			return int64(len(x.E))
		case *Chan:
			if x == nil {
				return int64(0)
			}
			return int64(x.cap)
		}
	case "append":
		return ex.appendOp(args[0], args[1], site, fr)
	case "copy":
		dst := args[0].(Slice)
		var n int
		switch src := args[1].(type) {
		case Slice:
			n = dst.Len
			if src.Len < n {
				n = src.Len
			}
			tmp := make([]Value, n)
			for i := 0; i < n; i++ {
				tmp[i] = copyVal(src.Arr.E[src.Off+i].V)
			}
			for i := 0; i < n; i++ {
				c := dst.Arr.E[dst.Off+i]
				if c.Own != nil && !identicalValue(c.V, tmp[i]) {
					ex.recordWrite(c.Own, fr)
				}
				c.V = tmp[i]
			}
		case string:
			n = dst.Len
			if len(src) < n {
				n = len(src)
			}
			for i := 0; i < n; i++ {
				dst.Arr.E[dst.Off+i].V = int64(src[i])
			}
		default:
			panic(engineErr("copy from %T", args[1]))
		}
		return int64(n)
	case "delete":
		ex.mapDelete(args[0], args[1], fr)
		return nil
	case "close":
		ex.chanClose(args[0], fr)
		return nil
	case "panic":
		panic(goPanic{val: args[0], msg: "panic: " + showValue(args[0])})
	case "recover":
		// fr is the deferred function's frame; its caller is the panicking frame
		if fr != nil && fr.caller != nil && fr.caller.panicking {
			fr.caller.panicking = false
			return fr.caller.panicVal.val
		}
		return Iface{}
	case "print", "println":
		return nil
	case "ssa:wrapnilchk":
		if isNilPtr(args[0]) {
			ex.goPanicf("value method called using nil pointer")
		}
		return args[0]
	case "min", "max":
		// concrete ints/floats only
		if a, ok := args[0].(int64); ok {
			r := a
			isMin := b.Name() == "min"
			for _, v := range args[1:] {
				w := v.(int64)
				if (w < r) == isMin {
					r = w
				}
			}
			return r
		}
	case "clear":
		if m, ok := args[0].(*Map); ok && m != nil {
			ex.forceMap(m)
			for _, e := range m.live() {
				e.Deleted = true
			}
			if m.Own != nil {
				ex.recordWrite(m.Own, fr)
			}
			return nil
		}
	}
	panic(engineErr("builtin %s on %T", b.Name(), args[0]))
}

func (ex *Exec) appendOp(dst, src Value, site ssa.CallInstruction, fr *frame) Value {
	d := dst.(Slice)
	var elems []Value
	switch s := src.(type) {
	case Slice:
		if s.Len < 0 {
			panic(engineErr("append of symbolic byte image"))
		}
		for i := 0; i < s.Len; i++ {
			elems = append(elems, copyVal(s.Arr.E[s.Off+i].V))
		}
	case string:
		for i := 0; i < len(s); i++ {
			elems = append(elems, int64(s[i]))
		}
	default:
		panic(engineErr("append from %T", src))
	}
	if len(elems) == 0 {
		return d
	}
	n := d.Len + len(elems)
	if d.Arr != nil && n <= d.Cap {
		// in place: writes into the shared backing array
		for i, v := range elems {
			c := d.Arr.E[d.Off+d.Len+i]
			if c.Own != nil && !identicalValue(c.V, v) {
				ex.recordWrite(c.Own, fr)
				ex.writes[len(ex.writes)-1].pos += " (append in place: " + showValue(c.V) + " <- " + showValue(v) + ")"
			}
			ex.raceWrite(c.acc(), fr)
			c.V = v
		}
		return Slice{Arr: d.Arr, Off: d.Off, Len: n, Cap: d.Cap}
	}
	ncap := n
	if ncap < 2*d.Cap {
		ncap = 2 * d.Cap
	}
	arr := &Array{E: make([]*Cell, ncap)}
	for i := 0; i < d.Len; i++ {
		arr.E[i] = &Cell{V: copyVal(d.Arr.E[d.Off+i].V)}
	}
	for i, v := range elems {
		arr.E[d.Len+i] = &Cell{V: v}
	}
	var et types.Type
	if site != nil {
		if sl, ok := site.Value().Type().Underlying().(*types.Slice); ok {
			et = sl.Elem()
		}
	}
	for i := n; i < ncap; i++ {
		if et != nil {
			arr.E[i] = &Cell{V: zero(et)}
		} else {
			arr.E[i] = &Cell{}
		}
	}
	return Slice{Arr: arr, Off: 0, Len: n, Cap: ncap}
}
