// Package smt builds SMT-LIB2 terms and drives a persistent solver process.
package smt

import (
	"fmt"
	"math"
	"strings"
)

type Kind int

const (
	KBool Kind = iota
	KBV
	KFP // float64
	KStr
)

type Sort struct {
	K Kind
	W int // bit width for KBV
}

var (
	Bool = Sort{K: KBool}
	FP64 = Sort{K: KFP}
	Str  = Sort{K: KStr}
	BV64 = Sort{K: KBV, W: 64}
	BV8  = Sort{K: KBV, W: 8}
	BV32 = Sort{K: KBV, W: 32}
	BV16 = Sort{K: KBV, W: 16}
)

func BV(w int) Sort { return Sort{K: KBV, W: w} }

func (s Sort) SMT() string {
	switch s.K {
	case KBool:
		return "Bool"
	case KBV:
		return fmt.Sprintf("(_ BitVec %d)", s.W)
	case KFP:
		return "(_ FloatingPoint 11 53)"
	case KStr:
		return "String"
	}
	return "?"
}

// Term is an SMT-LIB2 expression with its sort.
type Term struct {
	S    string
	Sort Sort
	// Conj: the conjuncts of an (and ...) term, for syntactic fact caching
	Conj []*Term
}

func (t *Term) String() string { return t.S }

func mk(sort Sort, f string, args ...interface{}) *Term {
	return &Term{S: fmt.Sprintf(f, args...), Sort: sort}
}

var (
	True  = &Term{S: "true", Sort: Bool}
	False = &Term{S: "false", Sort: Bool}
)

func BoolConst(b bool) *Term {
	if b {
		return True
	}
	return False
}

func BVConst(v uint64, w int) *Term {
	if w < 64 {
		v &= (uint64(1) << uint(w)) - 1
	}
	if w%4 == 0 {
		return &Term{S: fmt.Sprintf("#x%0*x", w/4, v), Sort: BV(w)}
	}
	return &Term{S: fmt.Sprintf("(_ bv%d %d)", v, w), Sort: BV(w)}
}

func FPConst(f float64) *Term {
	return &Term{S: fmt.Sprintf("((_ to_fp 11 53) #x%016x)", math.Float64bits(f)), Sort: FP64}
}

// StrLit renders a Go string (bytes <= 0x7f expected; others escaped as code points) as an SMT-LIB string literal.
func StrLit(s string) string {
	var b strings.Builder
	b.WriteByte('"')
	for i := 0; i < len(s); i++ {
		c := s[i]
		switch {
		case c == '"':
			b.WriteString(`""`)
		case c == '\\':
			b.WriteString(`\u{5c}`)
		case c >= 0x20 && c <= 0x7e:
			b.WriteByte(c)
		default:
			fmt.Fprintf(&b, `\u{%x}`, c)
		}
	}
	b.WriteByte('"')
	return b.String()
}

func StrConst(s string) *Term { return &Term{S: StrLit(s), Sort: Str} }

func Var(name string, sort Sort) *Term { return &Term{S: name, Sort: sort} }

// ---- boolean ----

func Not(a *Term) *Term {
	if a == True {
		return False
	}
	if a == False {
		return True
	}
	if strings.HasPrefix(a.S, "(not ") {
		return &Term{S: a.S[5 : len(a.S)-1], Sort: Bool}
	}
	return mk(Bool, "(not %s)", a.S)
}

func And(ts ...*Term) *Term {
	var parts []string
	var conj []*Term
	for _, t := range ts {
		if t == nil || t == True || t.S == "true" {
			continue
		}
		if t == False || t.S == "false" {
			return False
		}
		parts = append(parts, t.S)
		conj = append(conj, t)
	}
	switch len(parts) {
	case 0:
		return True
	case 1:
		return conj[0]
	}
	return &Term{S: "(and " + strings.Join(parts, " ") + ")", Sort: Bool, Conj: conj}
}

func Or(ts ...*Term) *Term {
	var parts []string
	for _, t := range ts {
		if t == nil || t == False || t.S == "false" {
			continue
		}
		if t == True || t.S == "true" {
			return True
		}
		parts = append(parts, t.S)
	}
	switch len(parts) {
	case 0:
		return False
	case 1:
		return &Term{S: parts[0], Sort: Bool}
	}
	return &Term{S: "(or " + strings.Join(parts, " ") + ")", Sort: Bool}
}

func Implies(a, b *Term) *Term { return Or(Not(a), b) }

func Eq(a, b *Term) *Term {
	if a.Sort.K == KFP && a.S == b.S {
		return Not(FPIsNaN(a))
	}
	if a.S == b.S {
		return True
	}
	if a.Sort.K == KFP {
		// Go == on floats
		return mk(Bool, "(fp.eq %s %s)", a.S, b.S)
	}
	return mk(Bool, "(= %s %s)", a.S, b.S)
}

// Same is structural identity (for floats: bit-identical modulo NaN payload), i.e. SMT "=".
func Same(a, b *Term) *Term {
	if a.S == b.S {
		return True
	}
	return mk(Bool, "(= %s %s)", a.S, b.S)
}

func Ite(c, a, b *Term) *Term {
	if c == True || c.S == "true" {
		return a
	}
	if c == False || c.S == "false" {
		return b
	}
	return mk(a.Sort, "(ite %s %s %s)", c.S, a.S, b.S)
}

// ---- bit-vectors ----

func BVBin(op string, a, b *Term) *Term { return mk(a.Sort, "(%s %s %s)", op, a.S, b.S) }
func BVCmp(op string, a, b *Term) *Term { return mk(Bool, "(%s %s %s)", op, a.S, b.S) }
func BVNeg(a *Term) *Term               { return mk(a.Sort, "(bvneg %s)", a.S) }
func BVNot(a *Term) *Term               { return mk(a.Sort, "(bvnot %s)", a.S) }

func BVResize(a *Term, w int, signed bool) *Term {
	if a.Sort.W == w {
		return a
	}
	if a.Sort.W > w {
		return mk(BV(w), "((_ extract %d 0) %s)", w-1, a.S)
	}
	if signed {
		return mk(BV(w), "((_ sign_extend %d) %s)", w-a.Sort.W, a.S)
	}
	return mk(BV(w), "((_ zero_extend %d) %s)", w-a.Sort.W, a.S)
}

// ---- floats ----

func FPBin(op string, a, b *Term) *Term { return mk(FP64, "(%s RNE %s %s)", op, a.S, b.S) }
func FPCmp(op string, a, b *Term) *Term { return mk(Bool, "(%s %s %s)", op, a.S, b.S) }
func FPNeg(a *Term) *Term               { return mk(FP64, "(fp.neg %s)", a.S) }
func FPIsNaN(a *Term) *Term             { return mk(Bool, "(fp.isNaN %s)", a.S) }
func FPIsInf(a *Term) *Term             { return mk(Bool, "(fp.isInfinite %s)", a.S) }
func FPFromSBV(a *Term) *Term           { return mk(FP64, "((_ to_fp 11 53) RNE %s)", a.S) }
func FPFromUBV(a *Term) *Term           { return mk(FP64, "((_ to_fp_unsigned 11 53) RNE %s)", a.S) }
func FPToSBV(a *Term, w int) *Term      { return mk(BV(w), "((_ fp.to_sbv %d) RTZ %s)", w, a.S) }
func FPToUBV(a *Term, w int) *Term      { return mk(BV(w), "((_ fp.to_ubv %d) RTZ %s)", w, a.S) }

// ---- strings ----

func StrConcat(a, b *Term) *Term   { return mk(Str, "(str.++ %s %s)", a.S, b.S) }
func StrLen(a *Term) *Term         { return mk(BV64, "((_ int2bv 64) (str.len %s))", a.S) }
func StrLenInt(a *Term) string     { return fmt.Sprintf("(str.len %s)", a.S) }
func StrPrefixOf(p, s *Term) *Term { return mk(Bool, "(str.prefixof %s %s)", p.S, s.S) }
func StrSuffixOf(p, s *Term) *Term { return mk(Bool, "(str.suffixof %s %s)", p.S, s.S) }
func StrContains(s, sub *Term) *Term {
	return mk(Bool, "(str.contains %s %s)", s.S, sub.S)
}
func StrLT(a, b *Term) *Term { return mk(Bool, "(str.< %s %s)", a.S, b.S) }
func StrLE(a, b *Term) *Term { return mk(Bool, "(str.<= %s %s)", a.S, b.S) }

// StrSubstrInt: offsets given as SMT Int expressions.
func StrSubstrInt(s *Term, off, n string) *Term {
	return mk(Str, "(str.substr %s %s %s)", s.S, off, n)
}

// StrAtCode: the code (as BV8) of the character at integer offset expr.
func StrAtCode(s *Term, off string) *Term {
	return mk(BV8, "((_ int2bv 8) (str.to_code (str.at %s %s)))", s.S, off)
}

func StrFromCode(b *Term) *Term {
	return mk(Str, "(str.from_code (bv2nat %s))", b.S)
}

// BV2Int renders a bit-vector term as an (unsigned) SMT Int expression.
func BV2Int(a *Term) string { return fmt.Sprintf("(bv2nat %s)", a.S) }
