package smt

import (
	"fmt"
	"math"
	"strconv"
	"strings"
)

// DecodeBool parses a model value of sort Bool.
func DecodeBool(v string) (bool, error) {
	switch v {
	case "true":
		return true, nil
	case "false":
		return false, nil
	}
	return false, fmt.Errorf("bad bool %q", v)
}

// DecodeBV parses "#x.." / "#b.." / "(_ bvN w)".
func DecodeBV(v string) (uint64, error) {
	switch {
	case strings.HasPrefix(v, "#x"):
		return strconv.ParseUint(v[2:], 16, 64)
	case strings.HasPrefix(v, "#b"):
		return strconv.ParseUint(v[2:], 2, 64)
	case strings.HasPrefix(v, "(_ bv"):
		f := strings.Fields(v[5:])
		return strconv.ParseUint(f[0], 10, 64)
	}
	return 0, fmt.Errorf("bad bv %q", v)
}

// DecodeFP parses a FloatingPoint 11 53 model value.
func DecodeFP(v string) (float64, error) {
	sx, err := ParseSexp(v)
	if err != nil {
		return 0, err
	}
	if !sx.IsList {
		return 0, fmt.Errorf("bad fp %q", v)
	}
	l := sx.List
	if len(l) >= 2 && l[0].Atom == "_" {
		switch l[1].Atom {
		case "+zero":
			return 0, nil
		case "-zero":
			return math.Copysign(0, -1), nil
		case "+oo":
			return math.Inf(1), nil
		case "-oo":
			return math.Inf(-1), nil
		case "NaN":
			return math.NaN(), nil
		}
	}
	if len(l) == 4 && l[0].Atom == "fp" {
		s, err1 := DecodeBV(l[1].Atom)
		e, err2 := DecodeBV(l[2].Atom)
		m, err3 := DecodeBV(l[3].Atom)
		if err1 != nil || err2 != nil || err3 != nil {
			return 0, fmt.Errorf("bad fp %q", v)
		}
		return math.Float64frombits(s<<63 | e<<52 | m), nil
	}
	return 0, fmt.Errorf("bad fp %q", v)
}

// DecodeStr parses an SMT-LIB string literal with "" and \u{..} / \x.. escapes.
func DecodeStr(v string) (string, error) {
	if len(v) < 2 || v[0] != '"' || v[len(v)-1] != '"' {
		return "", fmt.Errorf("bad string %q", v)
	}
	v = v[1 : len(v)-1]
	var b strings.Builder
	for i := 0; i < len(v); i++ {
		c := v[i]
		if c == '"' && i+1 < len(v) && v[i+1] == '"' {
			b.WriteByte('"')
			i++
			continue
		}
		if c == '\\' && i+1 < len(v) {
			if v[i+1] == 'u' && i+2 < len(v) && v[i+2] == '{' {
				j := strings.IndexByte(v[i:], '}')
				if j > 0 {
					n, err := strconv.ParseUint(v[i+3:i+j], 16, 32)
					if err == nil {
						if n < 0x80 {
							b.WriteByte(byte(n))
						} else {
							b.WriteRune(rune(n))
						}
						i += j
						continue
					}
				}
			}
			if v[i+1] == 'u' && i+5 < len(v) {
				n, err := strconv.ParseUint(v[i+2:i+6], 16, 32)
				if err == nil {
					b.WriteRune(rune(n))
					i += 5
					continue
				}
			}
			if v[i+1] == 'x' && i+3 < len(v) {
				n, err := strconv.ParseUint(v[i+2:i+4], 16, 32)
				if err == nil {
					b.WriteByte(byte(n))
					i += 3
					continue
				}
			}
		}
		b.WriteByte(c)
	}
	return b.String(), nil
}
