package smt

import (
	"bufio"
	"fmt"
	"io"
	"os/exec"
	"strings"
	"time"
)

type Result int

const (
	Unsat Result = iota
	Sat
	Unknown
)

func (r Result) String() string { return [...]string{"unsat", "sat", "unknown"}[r] }

// Solver is one persistent solver process speaking SMT-LIB2 on stdin/stdout.
type Solver struct {
	cmd                    *exec.Cmd
	in                     io.WriteCloser
	out                    *bufio.Reader
	Log                    io.Writer // optional transcript
	Time                   time.Duration
	NSat, NUnsat, NUnknown int
	Bin                    string
	TimeoutMs              int
}

func NewSolver(bin string, timeoutMs int) (*Solver, error) {
	s := &Solver{Bin: bin, TimeoutMs: timeoutMs}
	if err := s.start(); err != nil {
		return nil, err
	}
	return s, nil
}

func (s *Solver) start() error {
	var cmd *exec.Cmd
	if strings.Contains(s.Bin, "cvc5") {
		cmd = exec.Command(s.Bin, "--incremental", "--strings-exp", "--lang=smt2", fmt.Sprintf("--tlimit-per=%d", s.TimeoutMs))
	} else {
		cmd = exec.Command(s.Bin, "-in", "-smt2")
	}
	in, err := cmd.StdinPipe()
	if err != nil {
		return err
	}
	out, err := cmd.StdoutPipe()
	if err != nil {
		return err
	}
	cmd.Stderr = cmd.Stdout
	if err := cmd.Start(); err != nil {
		return err
	}
	s.cmd, s.in, s.out = cmd, in, bufio.NewReaderSize(out, 1<<16)
	s.preamble()
	return nil
}

func (s *Solver) preamble() {
	if !strings.Contains(s.Bin, "cvc5") {
		s.Send(fmt.Sprintf("(set-option :timeout %d)", s.TimeoutMs))
	} else {
		s.Send("(set-logic ALL)")
	}
	s.Send("(set-option :produce-models true)")
}

func (s *Solver) Close() {
	if s.cmd != nil {
		s.in.Close()
		s.cmd.Process.Kill()
		s.cmd.Wait()
		s.cmd = nil
	}
}

// Send writes a command that produces no output on success.
func (s *Solver) Send(line string) {
	if s.Log != nil {
		fmt.Fprintln(s.Log, line)
	}
	io.WriteString(s.in, line)
	io.WriteString(s.in, "\n")
}

// Reset clears all assertions and declarations.
func (s *Solver) Reset() {
	s.Send("(reset)")
	s.preamble()
}

func (s *Solver) Push() { s.Send("(push 1)") }
func (s *Solver) Pop()  { s.Send("(pop 1)") }

func (s *Solver) Declare(name string, sort Sort) {
	s.Send(fmt.Sprintf("(declare-fun %s () %s)", name, sort.SMT()))
}

func (s *Solver) Assert(t *Term) {
	s.Send("(assert " + t.S + ")")
}

// sync reads lines until the echo marker, returning everything before it.
func (s *Solver) readUntilMarker(marker string) ([]string, error) {
	var lines []string
	for {
		line, err := s.out.ReadString('\n')
		if err != nil {
			return lines, fmt.Errorf("solver died: %v (%v)", err, lines)
		}
		line = strings.TrimRight(line, "\r\n")
		if line == marker || line == `"`+marker+`"` {
			return lines, nil
		}
		if line != "" {
			lines = append(lines, line)
		}
	}
}

var markerN int

// Check runs (check-sat). Any "(error" output is reported as an error (inconclusive).
func (s *Solver) Check() (Result, error) {
	t0 := time.Now()
	defer func() { s.Time += time.Since(t0) }()
	marker := "gosym-marker"
	s.Send("(check-sat)")
	s.Send(`(echo "` + marker + `")`)
	lines, err := s.readUntilMarker(marker)
	if err != nil {
		return Unknown, err
	}
	res := Unknown
	got := false
	for _, l := range lines {
		switch {
		case strings.HasPrefix(l, "(error"):
			return Unknown, fmt.Errorf("solver error: %s", l)
		case l == "sat":
			res, got = Sat, true
		case l == "unsat":
			res, got = Unsat, true
		case l == "unknown" || l == "timeout":
			res, got = Unknown, true
		}
	}
	if !got {
		return Unknown, fmt.Errorf("no check-sat answer: %v", lines)
	}
	switch res {
	case Sat:
		s.NSat++
	case Unsat:
		s.NUnsat++
	default:
		s.NUnknown++
	}
	return res, nil
}

// CheckAssuming checks PC ∧ t without changing the assertion stack.
func (s *Solver) CheckWith(t *Term) (Result, error) {
	s.Push()
	s.Assert(t)
	r, err := s.Check()
	s.Pop()
	return r, err
}

// GetValues returns the model values (raw SMT-LIB text) of the given constant names after a Sat answer.
func (s *Solver) GetValues(names []string) (map[string]string, error) {
	res := map[string]string{}
	const chunk = 50
	for i := 0; i < len(names); i += chunk {
		j := i + chunk
		if j > len(names) {
			j = len(names)
		}
		marker := "gosym-marker"
		s.Send("(get-value (" + strings.Join(names[i:j], " ") + "))")
		s.Send(`(echo "` + marker + `")`)
		lines, err := s.readUntilMarker(marker)
		if err != nil {
			return nil, err
		}
		text := strings.Join(lines, "\n")
		if strings.Contains(text, "(error") {
			return nil, fmt.Errorf("solver error: %s", text)
		}
		sx, err := ParseSexp(text)
		if err != nil {
			return nil, err
		}
		for _, pair := range sx.List {
			if len(pair.List) == 2 {
				res[pair.List[0].Atom] = pair.List[1].Text()
			}
		}
	}
	return res, nil
}

// ---- tiny s-expression parser ----

type Sexp struct {
	Atom   string
	Str    bool // atom is a string literal (Atom holds the raw literal including quotes)
	List   []*Sexp
	IsList bool
}

func (s *Sexp) Text() string {
	if !s.IsList {
		return s.Atom
	}
	parts := make([]string, len(s.List))
	for i, c := range s.List {
		parts[i] = c.Text()
	}
	return "(" + strings.Join(parts, " ") + ")"
}

func ParseSexp(text string) (*Sexp, error) {
	p := &sparser{s: text}
	p.ws()
	x, err := p.parse()
	return x, err
}

type sparser struct {
	s string
	i int
}

func (p *sparser) ws() {
	for p.i < len(p.s) && (p.s[p.i] == ' ' || p.s[p.i] == '\n' || p.s[p.i] == '\t' || p.s[p.i] == '\r') {
		p.i++
	}
}

func (p *sparser) parse() (*Sexp, error) {
	p.ws()
	if p.i >= len(p.s) {
		return nil, fmt.Errorf("unexpected end of s-expression")
	}
	c := p.s[p.i]
	switch {
	case c == '(':
		p.i++
		l := &Sexp{IsList: true}
		for {
			p.ws()
			if p.i >= len(p.s) {
				return nil, fmt.Errorf("unterminated list")
			}
			if p.s[p.i] == ')' {
				p.i++
				return l, nil
			}
			x, err := p.parse()
			if err != nil {
				return nil, err
			}
			l.List = append(l.List, x)
		}
	case c == '"':
		j := p.i + 1
		for j < len(p.s) {
			if p.s[j] == '"' {
				if j+1 < len(p.s) && p.s[j+1] == '"' {
					j += 2
					continue
				}
				break
			}
			j++
		}
		a := &Sexp{Atom: p.s[p.i : j+1], Str: true}
		p.i = j + 1
		return a, nil
	case c == '|':
		j := strings.IndexByte(p.s[p.i+1:], '|')
		a := &Sexp{Atom: p.s[p.i : p.i+j+2]}
		p.i += j + 2
		return a, nil
	default:
		j := p.i
		for j < len(p.s) && !strings.ContainsRune(" \n\t\r()", rune(p.s[j])) {
			j++
		}
		a := &Sexp{Atom: p.s[p.i:j]}
		p.i = j
		return a, nil
	}
}
